#!/usr/bin/env bash
# Offline build of the whole framework (MANIFEST.setup_cmd).
set -eu
cd "$(dirname "$0")"
export CARGO_NET_OFFLINE=true
mkdir -p evidence replays harness/target
(cd harness && cargo build --release -p rsim && cargo build --profile checked -p rsim)
./harness/target/release/rsim selftest
[ -x tools/c16.sh ] && tools/c16.sh build || true
echo "setup ok"
