#!/usr/bin/env bash
# tools/determinism_check.sh [runs-per-simulator] [seed]
# Proves replayability of Sim A/B/D: every run's event-log hash must be identical across processes,
# worker counts (16 vs 3) and repeated executions, in both build profiles. Sim C: two executions of
# the same tsim batch must report identical counters.
set -u
cd "$(dirname "$0")/.."
N=${1:-300}; SEEDS=${2:-"1 2 3 4 5"}
H=harness/target
fail=0
# binaries must be those of /repo's current working tree
(cd harness && CARGO_NET_OFFLINE=true cargo build --release -p rsim -q && CARGO_NET_OFFLINE=true cargo build --profile checked -p rsim -q) || exit 2
tools/c16.sh build || exit 2
for SEED in $SEEDS; do
for prof in release checked; do
  for prop in C01 C06 C10 C14; do
    a=$($H/$prof/rsim hashes --property $prop --runs $N --seed $SEED --workers 16 | sort | sha256sum)
    b=$($H/$prof/rsim hashes --property $prop --runs $N --seed $SEED --workers 3 | sort | sha256sum)
    c=$($H/$prof/rsim hashes --property $prop --runs $N --seed $SEED --workers 7 | sort | sha256sum)
    n=$($H/$prof/rsim hashes --property $prop --runs $N --seed $SEED --workers 5 | wc -l)
    if [ "$a" = "$b" ] && [ "$a" = "$c" ]; then echo "deterministic: VERIF_SEED=$SEED $prof $prop ($n run hashes, workers 16/3/7)"; else echo "NONDETERMINISTIC: VERIF_SEED=$SEED $prof $prop"; fail=1; fi
  done
done
done
SEED=1
# cross-profile: the event log does not depend on the build profile either
a=$($H/release/rsim hashes --property C05 --runs $N --seed $SEED | sort | sha256sum)
b=$($H/checked/rsim hashes --property C05 --runs $N --seed $SEED | sort | sha256sum)
[ "$a" = "$b" ] && echo "deterministic: release vs checked (C05)" || { echo "NONDETERMINISTIC: release vs checked"; fail=1; }
if [ -x $H/shuttle/release/tsim ]; then
  a=$($H/shuttle/release/tsim check --tier quick --iterations 1600 --seed $SEED --replays /tmp | tail -n1)
  b=$($H/shuttle/release/tsim check --tier quick --iterations 1600 --seed $SEED --replays /tmp --workers 16 | tail -n1)
  a=${a%%, [0-9.]*s,*}; b=${b%%, [0-9.]*s,*}
  [ "$a" = "$b" ] && echo "deterministic: tsim ($a)" || { echo "NONDETERMINISTIC: tsim: $a / $b"; fail=1; }
fi
exit $fail
