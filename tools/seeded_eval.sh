#!/usr/bin/env bash
# tools/seeded_eval.sh <name> <property> <worktree>
# Confirms an independently written property-breaking change (from a sub-agent's scratch worktree) and
# runs the property's quick check against it. Keeps it as /verif/seeded/<name>/ only if all confirmations hold.
set -u
NAME=$1; PROP=$2; WT=$3
export CARGO_NET_OFFLINE=true
OUT=/verif/seeded/$NAME
cd "$WT" || exit 2
[ -s patch.diff ] || git diff -- src > patch.diff
DEMO=$(ls tests/demo_*.rs | head -n1); DEMOT=$(basename "$DEMO" .rs)
echo "== 1. existing suite with the change"
# everything except the demo test (which is expected to fail with the change)
if cargo test --offline -q --lib --bins --test integration_test >/tmp/seeded_$NAME.suite.log 2>&1 && cargo test --offline -q --doc >>/tmp/seeded_$NAME.suite.log 2>&1; then suite=pass; else suite=FAIL; fi
echo "   existing suite: $suite"
echo "== 2. demo with the change (must fail)"
if cargo test --offline -q ${DEMO_FEATURES:+--features "$DEMO_FEATURES"} --test "$DEMOT" >/tmp/seeded_$NAME.demo1.log 2>&1; then d1=pass; else d1=fail; fi
echo "   demo with change: $d1"
echo "== 3. demo without the change (must pass)"
# (no git stash: the stash is shared between all worktrees of a repository)
git diff -- src > /tmp/seeded_$NAME.src.diff
git checkout -q -- src
if cargo test --offline -q ${DEMO_FEATURES:+--features "$DEMO_FEATURES"} --test "$DEMOT" >/tmp/seeded_$NAME.demo0.log 2>&1; then d0=pass; else d0=fail; fi
git apply /tmp/seeded_$NAME.src.diff
echo "   demo without change: $d0"
if [ "$suite" != pass ] || [ "$d1" != fail ] || [ "$d0" != pass ]; then echo "NOT CONFIRMED: $NAME"; exit 3; fi
echo "== 4. $PROP quick check against the change"
cd /verif
t0=$(date +%s)
if [ -n "${ALT:-}" ]; then
    # isolated scratch copy of repository and machinery (does not touch /repo; see tools/alt_eval.sh)
    tools/alt_eval.sh "$PROP" "$WT/patch.diff" quick > /tmp/seeded_$NAME.check.log 2>&1; rc=$?
else
    [ -z "$(git -C /repo status --porcelain --untracked-files=no)" ] || { echo "repo dirty"; exit 2; }
    git -C /repo apply "$WT/patch.diff" || { echo "patch does not apply to /repo"; exit 2; }
    trap 'git -C /repo checkout -- .' EXIT
    ./check "$PROP" quick > /tmp/seeded_$NAME.check.log 2>&1; rc=$?
    git -C /repo checkout -- .
fi
t1=$(date +%s)
vline=$(grep -m1 '^VIOLATION' /tmp/seeded_$NAME.check.log || true)
what=$(grep -m1 -E '^violation' /tmp/seeded_$NAME.check.log | cut -c1-400 || true)
echo "   check exit $rc in $((t1-t0))s: ${vline:-no VIOLATION line}"
echo "   $what"
mkdir -p "$OUT"
cp "$WT/patch.diff" "$OUT/patch.diff"; cp "$WT/$DEMO" "$OUT/"; [ -f "$WT/NOTES.md" ] && cp "$WT/NOTES.md" "$OUT/NOTES.md"
tail -n 40 /tmp/seeded_$NAME.check.log > "$OUT/check_output_tail.txt"
jq -n --arg name "$NAME" --arg prop "$PROP" --arg suite "$suite" --arg d1 "$d1" --arg d0 "$d0" --argjson rc $rc --arg v "$vline" --arg what "$what" --argjson secs $((t1-t0)) \
  '{name:$name, breaks_property:$prop, origin:"written by an independent sub-agent given only the property text and a scratch worktree", confirmed:{existing_suite_with_change:$suite, demo_with_change:$d1, demo_without_change:$d0}, ran:("./check "+$prop+" quick (patch applied to /repo, reverted afterwards)"), check_exit:$rc, detected:($rc==1), violation_line:$v, first_violation:$what, check_seconds:$secs, needs_to_manifest:"see NOTES.md"}' > "$OUT/meta.json"
[ $rc -eq 1 ] && echo "DETECTED: $NAME" || echo "MISSED: $NAME (rc=$rc)"
