#!/usr/bin/env bash
# tools/seeded_regress.sh [names...] : re-runs the quick check of its property against every kept seeded change
# (seeded/<name>/patch.diff applied to /repo, reverted afterwards) and every own mutant; all must still be detected.
set -u
cd "$(dirname "$0")/.."
[ -z "$(git -C /repo status --porcelain --untracked-files=no)" ] || { echo "repo dirty"; exit 2; }
[ -n "${ALT:-}" ] || trap 'git -C /repo checkout -- . 2>/dev/null' EXIT
if [ $# -eq 0 ]; then set -- $(ls seeded); fi
ok=0; bad=0
for n in "$@"; do
    prop=$(jq -r .breaks_property seeded/$n/meta.json)
    if [ -n "${ALT:-}" ]; then
        # isolated scratch copy, /repo untouched (tools/alt_eval.sh)
        t0=$(date +%s); out=$(tools/alt_eval.sh "$prop" "$PWD/seeded/$n/patch.diff" quick 2>&1); rc=$?; t1=$(date +%s)
    else
        git -C /repo apply "$PWD/seeded/$n/patch.diff" || { echo "$n: patch does not apply"; bad=$((bad+1)); continue; }
        t0=$(date +%s); out=$(./check "$prop" quick 2>&1); rc=$?; t1=$(date +%s)
        git -C /repo checkout -- .
    fi
    if [ $rc -eq 1 ] && echo "$out" | grep -q '^VIOLATION'; then ok=$((ok+1)); echo "$n: detected by $prop quick in $((t1-t0)) s"
    else bad=$((bad+1)); echo "$n: NOT detected by $prop quick (rc=$rc)"; fi
done
echo "seeded changes detected: $ok, not detected: $bad"
[ $bad -eq 0 ]
