#!/usr/bin/env python3
"""Validates evidence files and MANIFEST.json against the schemas (run with python3-vt)."""
import json, sys, glob, jsonschema
ok = True
ev = json.load(open('/root/.vp/EVIDENCE.schema.json'))
for f in sorted(glob.glob('/verif/evidence/*.json')):
    try:
        jsonschema.validate(json.load(open(f)), ev)
        print('ok  ', f)
    except Exception as e:
        ok = False
        print('FAIL', f, str(e)[:300])
try:
    jsonschema.validate(json.load(open('/verif/MANIFEST.json')), json.load(open('/root/.vp/MANIFEST.schema.json')))
    print('ok   MANIFEST.json')
except Exception as e:
    ok = False
    print('FAIL MANIFEST.json', str(e)[:300])
sys.exit(0 if ok else 1)
