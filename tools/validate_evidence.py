#!/usr/bin/env python3
"""Validates evidence files and MANIFEST.json against the schemas (run with python3-vt)."""
import json, sys, glob, jsonschema
ok = True
ev = json.load(open('/root/.vp/EVIDENCE.schema.json'))
for f in sorted(glob.glob('/verif/evidence/*.json')):
    try:
        jsonschema.validate(json.load(open(f)), ev)
        print('ok  ', f)
    except Exception as e:
        ok = False
        print('FAIL', f, str(e)[:300])
# reach: a probe stuck at zero means the workload or the fault mix must change
REQUIRED = {
 'C01': ['probes.decode_with_exactly_k','probes.decode_with_surplus','probes.all_originals_lost','probes.final_get_with_enough_durable','probes.decode_failed_then_succeeded_on_same_object','faults_fired.F1.message_lost','faults_fired.F4.crashes','faults_fired.F5.partitions'],
 'C02': ['counters.r1.symbols_compared','counters.c02.ancestor_release_encodes_compared','probes.partial_last_block'],
 'C03': ['counters.lockstep.fft_calls','counters.lockstep.eval_poly_calls','counters.lockstep.perturbed_shadow_calls','counters.lockstep.far_position_shadow_calls','counters.c03.cross_machine_gets'],
 'C04': ['counters.c04.slot_checks','probes.partial_last_block','probes.shard_array_contract'],
 'C05': ['probes.round_on_reused_object','probes.work_changed_owner','probes.reset_crosses_rate','counters.r3.shadow_rounds','probes.marathon_histories','probes.same_positions_after_sibling_reset'],
 'C06': ['faults_fired.F10.reset_bad_size','faults_fired.F8.index_out_of_range','faults_fired.F7.wrong_length','counters.oneshot.errors_judged'],
 'C07': ['probes.round_after_failed_call','faults_fired.F10.reset_bad_size','faults_fired.F10.reset_bad_counts'],
 'C08': ['probes.supports','probes.validate','probes.constructor','counters.corner.decodes'],
 'C09': ['counters.c09.twin_rounds_rates_distinguishable','probes.reset_crosses_rate'],
 'C10': ['counters.c10.oneshot_decode_compared','counters.c10.oneshot_encode_compared','probes.oneshot_no_recovery_given','counters.oneshot.errors_judged','counters.oneshot.iter_not_fused','counters.oneshot.iter_loose_hint','counters.oneshot.iter_reentrant'],
 'C11': ['counters.c11.order_variants','counters.c11.subset_variants','faults_fired.F3.inversions','probes.decode_with_surplus'],
 'C12': ['counters.enc.rounds','counters.dec.rounds','probes.no_original_lost','faults_fired.F14.caller_unwinds_through_result'],
 'C14': ['counters.cpu.masked_rounds'],
 'C17': ['counters.alloc.regions_checked','probes.reset_within_held','probes.recycle_within_held'],
 'C16': ['probes.round_finished_by_a_different_thread','faults_fired.F12.preemptions','probes.codecs_left_in_thread_local_storage_at_thread_exit','probes.threads_starting_with_a_direct_eval_poly_call'],
}
for f in sorted(glob.glob('/verif/evidence/*.json')):
    e = json.load(open(f)); pid = e['property_id']
    for key in REQUIRED.get(pid, []):
        group, name = key.split('.', 1)
        v = e['coverage'].get(group, {}).get(name, 0)
        if not v:
            ok = False
            print('ZERO', pid, key)
try:
    jsonschema.validate(json.load(open('/verif/MANIFEST.json')), json.load(open('/root/.vp/MANIFEST.schema.json')))
    print('ok   MANIFEST.json')
except Exception as e:
    ok = False
    print('FAIL MANIFEST.json', str(e)[:300])
sys.exit(0 if ok else 1)
