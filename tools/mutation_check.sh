#!/usr/bin/env bash
# tools/mutation_check.sh [--with-tests] <patch>...   (default: all of /verif/mutants/*.patch)
# Applies each patch to /repo, runs the quick check of the property named by the file prefix,
# expects exit 1 with a VIOLATION line, and reverts /repo. Never leaves /repo modified.
set -u
cd "$(dirname "$0")/.."
WITH_TESTS=0
if [ "${1:-}" = "--with-tests" ]; then WITH_TESTS=1; shift; fi
if [ $# -eq 0 ]; then set -- mutants/*.patch; fi
[ -n "${ALT:-}" ] || [ -z "$(git -C /repo status --porcelain --untracked-files=no)" ] || { echo "repo dirty"; exit 2; }
[ -n "${ALT:-}" ] || trap 'git -C /repo checkout -- . 2>/dev/null' EXIT
pass=0; fail=0
for p in "$@"; do
    name=$(basename "$p" .patch); prop=${name%%-*}
    if [ -n "${ALT:-}" ]; then
        # isolated scratch copy, /repo untouched (tools/alt_eval.sh)
        out=$(tools/alt_eval.sh "$prop" "$(realpath "$p")" quick 2>&1); rc=$?
        line=$(echo "$out" | grep -m1 '^VIOLATION' || true)
        if [ $rc -eq 1 ] && [ -n "$line" ]; then echo "MUTANT $name: caught"; pass=$((pass+1)); else echo "MUTANT $name: MISSED rc=$rc"; fail=$((fail+1)); fi
        continue
    fi
    git -C /repo apply "$(realpath "$p")" || { echo "MUTANT $name: patch does not apply"; fail=$((fail+1)); continue; }
    tests="n/a"
    if [ $WITH_TESTS = 1 ]; then
        if (cd /repo && cargo test --offline -q >/dev/null 2>&1); then tests="pass"; else tests="FAIL"; fi
    fi
    out=$(./check "$prop" quick 2>&1); rc=$?
    git -C /repo checkout -- .
    line=$(echo "$out" | grep -m1 '^VIOLATION' || true)
    what=$(echo "$out" | grep -m1 '^violation in' | cut -c1-220 || true)
    if [ $rc -eq 1 ] && [ -n "$line" ]; then
        echo "MUTANT $name: caught (existing tests: $tests) $what"; pass=$((pass+1))
    else
        echo "MUTANT $name: MISSED rc=$rc (existing tests: $tests)"; echo "$out" | tail -n 3; fail=$((fail+1))
    fi
done
echo "caught $pass, missed $fail"
[ $fail -eq 0 ]
