#!/usr/bin/env python3
"""Generates harness/target/shuttle-src/src: /repo/src with std's synchronisation primitives textually replaced
by shuttle's, so that in Sim C every atomic operation, lock, once-cell and thread operation the crate performs -
including ones a later change introduces - is a scheduling point of the simulator's scheduler.
(src/verif.rs is copied unchanged; the lazy tables go through hook H4.)  Files are only rewritten when their
content changes, so cargo's change detection keeps working."""
import os, re, sys

SRC = '/repo/src'
DST = os.path.join(os.path.dirname(os.path.abspath(__file__)), '..', 'harness', 'target', 'shuttle-src', 'src')
KNOWN = {'atomic', 'Mutex', 'MutexGuard', 'RwLock', 'RwLockReadGuard', 'RwLockWriteGuard', 'Condvar', 'Barrier',
         'mpsc', 'Once', 'Arc', 'Weak', 'LockResult', 'PoisonError', 'TryLockError', 'TryLockResult'}

def split_top(items):
    out, depth, cur = [], 0, ''
    for ch in items:
        if ch == '{': depth += 1
        if ch == '}': depth -= 1
        if ch == ',' and depth == 0:
            out.append(cur.strip()); cur = ''
        else:
            cur += ch
    if cur.strip(): out.append(cur.strip())
    return out

def grouped(m):
    indent, vis, items = m.group(1), m.group(2) or '', split_top(m.group(3))
    sh = [i for i in items if re.split(r'[:\s{]', i)[0] in KNOWN]
    st = [i for i in items if i not in sh]
    lines = []
    if sh: lines.append(f"{indent}{vis}use shuttle::sync::{{{', '.join(sh)}}};")
    if st: lines.append(f"{indent}{vis}use std::sync::{{{', '.join(st)}}};")
    return '\n'.join(lines)

SHUTTLE_TOP = ('thread',)

def std_group(m):
    """`use std::{a, sync::atomic::{..}, sync::{Mutex, OnceLock}, thread, ..};` -> std part + shuttle part"""
    indent, vis, items = m.group(1), m.group(2) or '', split_top(m.group(3))
    std_items, sh_items = [], []
    for it in items:
        head = re.split(r'[:\s{]', it)[0]
        if head == 'sync':
            rest = it[len('sync::'):]
            if rest.startswith('{'):
                inner = split_top(rest[1:-1])
                k = [i for i in inner if re.split(r'[:\s{]', i)[0] in KNOWN]
                o = [i for i in inner if i not in k]
                if k: sh_items.append('sync::{' + ', '.join(k) + '}')
                if o: std_items.append('sync::{' + ', '.join(o) + '}')
            elif re.split(r'[:\s{]', rest)[0] in KNOWN:
                sh_items.append(it)
            else:
                std_items.append(it)
        elif head in SHUTTLE_TOP:
            sh_items.append(it)
        else:
            std_items.append(it)
    lines = []
    if std_items: lines.append(f"{indent}{vis}use std::{{{', '.join(std_items)}}};")
    if sh_items: lines.append(f"{indent}{vis}use shuttle::{{{', '.join(sh_items)}}};")
    return '\n'.join(lines)

def transform(text):
    text = re.sub(r'^([ \t]*)(pub(?:\([a-z]+\))? )?use std::\{((?:[^{}]|\{(?:[^{}]|\{[^{}]*\})*\})*)\};', std_group, text, flags=re.M)
    text = re.sub(r'^([ \t]*)(pub(?:\([a-z]+\))? )?use std::sync::\{((?:[^{}]|\{[^{}]*\})*)\};', grouped, text, flags=re.M)
    text = re.sub(r'\b(?:std|core)::sync::atomic\b', 'shuttle::sync::atomic', text)
    text = re.sub(r'\bstd::sync::(Mutex|MutexGuard|RwLock|RwLockReadGuard|RwLockWriteGuard|Condvar|Barrier|mpsc|Once)\b', r'shuttle::sync::\1', text)
    text = re.sub(r'\bstd::thread\b', 'shuttle::thread', text)
    text = re.sub(r'\b(?:std|core)::hint::spin_loop\b', 'shuttle::hint::spin_loop', text)
    if not STD_TLS:
        # per-thread storage of the simulated threads (shuttle runs all of them on one OS thread, where std's
        # thread_local! would be one shared slot that is never torn down); shuttle's LocalKey only has with/try_with,
        # so tools/c16.sh falls back to --std-tls when the crate uses more of LocalKey's API than that
        text = re.sub(r'(?<![\w:])(?:std::)?thread_local!', 'shuttle::thread_local!', text)
    return text

# files whose loops get a `sched_tick()` at the top of the body (not the per-byte kernels)
TICK_FILES = ('engine/tables.rs', 'rate/rate_high.rs', 'rate/rate_low.rs', 'rate/rate_default.rs', 'rate/decoder_work.rs',
              'rate/encoder_work.rs', 'lib.rs', 'reed_solomon.rs', 'decoder_result.rs', 'encoder_result.rs')

def add_ticks(text):
    out = []
    for line in text.split('\n'):
        out.append(line)
        if re.match(r'^\s*(for\s.+\sin\s.+|while\s.+|loop)\s*\{\s*$', line) and 'const ' not in line:
            indent = re.match(r'^(\s*)', line).group(1)
            out.append(indent + '    crate::verif::sched_tick();')
    return '\n'.join(out)

STD_TLS = '--std-tls' in sys.argv

def main():
    changed = 0
    wanted = set()
    for root, _, files in os.walk(SRC):
        for f in files:
            p = os.path.join(root, f)
            rel = os.path.relpath(p, SRC)
            wanted.add(rel)
            data = open(p, 'rb').read()
            if f.endswith('.rs') and rel != 'verif.rs':
                text = transform(data.decode())
                if rel in TICK_FILES:
                    # only outside #[cfg(test)] modules (they are not compiled here, but keep them untouched)
                    head, sep, tail = text.partition('#[cfg(test)]')
                    text = add_ticks(head) + sep + tail
                data = text.encode()
            q = os.path.join(DST, rel)
            os.makedirs(os.path.dirname(q), exist_ok=True)
            if not os.path.exists(q) or open(q, 'rb').read() != data:
                open(q, 'wb').write(data); changed += 1
    for root, _, files in os.walk(DST):
        for f in files:
            rel = os.path.relpath(os.path.join(root, f), DST)
            if rel not in wanted:
                os.remove(os.path.join(root, f)); changed += 1
    print(f"shuttle-src: {changed} file(s) updated")

if __name__ == '__main__':
    main()
