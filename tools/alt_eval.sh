#!/usr/bin/env bash
# tools/alt_eval.sh <property> <patch-file> [quick|thorough]
# Runs a check against a patched SCRATCH copy of the repository without touching /repo (so that long runs
# against /repo are not disturbed): /tmp/alt-repo is a git worktree of /repo's HEAD, /tmp/alt-verif a copy of
# /verif's files in which the path /repo is replaced by /tmp/alt-repo. Scratch only; nothing registered in
# MANIFEST.json uses this. Remove with: tools/alt_eval.sh --clean
set -u
# ALT_SUFFIX selects an independent scratch pair (several evaluations can run side by side)
ALT_REPO=/tmp/alt-repo${ALT_SUFFIX:-}; ALT_VERIF=/tmp/alt-verif${ALT_SUFFIX:-}
if [ "${1:-}" = "--clean" ]; then
    git -C /repo worktree remove --force $ALT_REPO 2>/dev/null; git -C /repo worktree prune; rm -rf $ALT_VERIF; exit 0
fi
PROP=$1; PATCH=$(realpath "$2"); TIER=${3:-quick}
if [ ! -d $ALT_REPO ]; then git -C /repo worktree add -q --detach $ALT_REPO HEAD && cp /repo/Cargo.lock $ALT_REPO/; fi
git -C $ALT_REPO checkout -q --detach "$(git -C /repo rev-parse HEAD)" 2>/dev/null
git -C $ALT_REPO checkout -q -- . 
mkdir -p $ALT_VERIF
rsync -a --delete --exclude harness/target --exclude .git --exclude replays --exclude evidence --exclude seeded --exclude mutants "${VERIF_SRC:-/verif}/" $ALT_VERIF/
grep -rlI --exclude-dir=target '/repo' $ALT_VERIF/check $ALT_VERIF/setup.sh $ALT_VERIF/tools $ALT_VERIF/harness --include='*.toml' --include='*.rs' --include='*.sh' --include='*.py' --include=check 2>/dev/null | while read -r f; do
    sed -i "s#/repo#$ALT_REPO#g" "$f"
done
git -C $ALT_REPO apply "$PATCH" || { echo "patch does not apply"; exit 2; }
(cd $ALT_VERIF && ./check "$PROP" "$TIER"); rc=$?
git -C $ALT_REPO checkout -q -- .
echo "alt_eval: $PROP $TIER against $(basename "$(dirname "$PATCH")") -> exit $rc"
exit $rc
