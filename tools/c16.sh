#!/usr/bin/env bash
# C16: Sim C. quick = shuttle layer; thorough = shuttle layer (deeper) + Miri many-seeds layer.
#   tools/c16.sh build | quick | thorough | replay <file>
set -u
ROOT=$(cd "$(dirname "$0")/.." && pwd)
H="$ROOT/harness"
export CARGO_NET_OFFLINE=true
export VERIF_SEED="${VERIF_SEED:-1}"
mkdir -p "$ROOT/evidence" "$ROOT/replays" "$H/target"

build_tsim() {
    # the crate under test is compiled from a generated copy of /repo/src in which std's synchronisation
    # primitives are shuttle's (every atomic / lock / thread operation becomes a scheduling point)
    python3 "$ROOT/tools/mk_shuttle_src.py" >/dev/null || { echo "harness error: mk_shuttle_src failed"; exit 2; }
    (cd "$H/shuttle-ws" && cargo build --release -p tsim -q 2>"$H/target/build-tsim.log") && return 0
    # shuttle's thread_local! offers less API than std's: if the crate needs more, its thread-locals stay std's
    python3 "$ROOT/tools/mk_shuttle_src.py" --std-tls >/dev/null || { echo "harness error: mk_shuttle_src failed"; exit 2; }
    (cd "$H/shuttle-ws" && cargo build --release -p tsim -q 2>"$H/target/build-tsim.log") || {
        echo "harness error: tsim build failed"; tail -n 30 "$H/target/build-tsim.log"; exit 2; }
    echo "note: the crate's thread_local! statics stay std's in the shuttle build (they use more of LocalKey than shuttle offers)"
}
build_msim() {
    (cd "$H/msim" && cargo build -q 2>"$H/target/build-msim.log") || {
        echo "harness error: msim build failed"; tail -n 30 "$H/target/build-msim.log"; exit 2; }
}
TSIM="$H/target/shuttle/release/tsim"
MSIM="$H/target/msim/debug/msim"

# miri_layer <mode> <nseeds> <scenario seed> : prints "ok <n>" or "fail <miri seed>"
miri_layer() {
    local mode=$1 n=$2 sseed=$3 exp log
    exp=$("$MSIM" expect "$mode" "$sseed") || { echo "harness error: msim expect failed"; exit 2; }
    log="$H/target/miri-$mode.log"
    (cd "$H/msim" && MIRIFLAGS="-Zmiri-many-seeds=0..$n -Zmiri-preemption-rate=0.1" \
        cargo +nightly miri run --offline -q -- race "$mode" "$sseed" "$exp" >"$log" 2>&1)
    local rc=$?
    local oks
    oks=$(grep -c '^race ok' "$log")
    if [ $rc -eq 0 ] && [ "$oks" -eq "$n" ]; then
        echo "ok $oks"
    else
        local bad
        bad=$(grep -m1 -oE 'Trying seed: [0-9]+|seed [0-9]+' "$log" | grep -oE '[0-9]+' | head -n1)
        echo "fail ${bad:-unknown} $exp"
    fi
}

case "${1:-}" in
build)
    build_tsim; build_msim; exit 0 ;;
replay)
    f="${2:?file}"
    fmt=$(jq -r '.format' "$f")
    if [ "$fmt" = "tsim-replay-1" ]; then
        build_tsim; exec "$TSIM" replay "$f"
    else
        build_msim
        mode=$(jq -r '.mode' "$f"); ms=$(jq -r '.miri_seed' "$f"); ss=$(jq -r '.scenario_seed' "$f")
        exp=$("$MSIM" expect "$mode" "$ss")
        if (cd "$H/msim" && MIRIFLAGS="-Zmiri-seed=$ms -Zmiri-preemption-rate=0.1" cargo +nightly miri run --offline -q -- race "$mode" "$ss" "$exp"); then
            echo "no violation on this tree"; exit 0
        else
            echo "VIOLATION property=C16 replay=$f"; exit 1
        fi
    fi ;;
quick|thorough)
    TIER=$1
    build_tsim
    # evidence is assembled under harness/target and moved into place at the end (a snapshot of /verif taken while
    # the check runs never sees a missing or half-written file); after a harness error no evidence is left behind
    EV="$ROOT/evidence/C16.json"
    T1=$(mktemp "$H/target/ev.XXXXXX"); T2=$(mktemp "$H/target/evfinal.XXXXXX")
    (ulimit -v 16777216 2>/dev/null; "$TSIM" check --tier "$TIER" --evidence "$T1" --replays "$ROOT/replays" ${C16_TSIM_ITERATIONS:+--iterations "$C16_TSIM_ITERATIONS"})
    rc=$?
    [ $rc -ge 2 ] && { rm -f "$T1" "$T2" "$EV"; exit 2; }
    miri_json='{"ran": false, "reason": "Miri layer runs in the thorough tier only (1.5-5 min per seed)"}'
    mrc=0
    if [ "$TIER" = "thorough" ] && [ $rc -eq 0 ]; then
        build_msim
        t0=$(date +%s)
        r1=$(miri_layer encode "${C16_MIRI_ENCODE_SEEDS:-32}" "$VERIF_SEED")
        r2=$(miri_layer decode "${C16_MIRI_DECODE_SEEDS:-16}" "$VERIF_SEED")
        t1=$(date +%s)
        echo "miri encode-race: $r1"; echo "miri decode-race (objects handed between threads mid-round): $r2"
        for pair in "encode:$r1" "decode:$r2"; do
            mode=${pair%%:*}; res=${pair#*:}
            if [ "${res%% *}" != "ok" ]; then
                ms=$(echo "$res" | awk '{print $2}')
                rp="$ROOT/replays/C16-miri-$mode-$VERIF_SEED.json"
                jq -n --arg mode "$mode" --arg ms "$ms" --arg ss "$VERIF_SEED" --rawfile log "$H/target/miri-$mode.log" \
                   '{format:"msim-replay-1", property:"C16", simulator:"C-miri", mode:$mode, miri_seed:$ms, scenario_seed:$ss, miri_output_tail:($log|split("\n")|.[-40:])}' > "$rp"
                echo "VIOLATION property=C16 replay=$rp"
                mrc=1
            fi
        done
        miri_json=$(jq -n --arg e "$r1" --arg d "$r2" --argjson secs $((t1-t0)) \
            '{ran:true, encode_race:$e, decode_race_with_handover:$d, wall_s:$secs, flags:"-Zmiri-many-seeds -Zmiri-preemption-rate=0.1", detects:"data races, UB, deadlock, panics; real std::sync::LazyLock, real threads, no hooks; Naive engine, 2-byte shards"}')
    fi
    jq --argjson miri "$miri_json" '.coverage.miri_layer = $miri' "$T1" > "$T2" || { echo "harness error: evidence"; rm -f "$T1" "$T2" "$EV"; exit 2; }
    chmod 644 "$T2"; mv -f "$T2" "$EV"
    rm -f "$T1"
    if [ $rc -eq 1 ] || [ $mrc -eq 1 ]; then exit 1; fi
    exit 0 ;;
*)
    echo "usage: tools/c16.sh build|quick|thorough|replay <file>"; exit 2 ;;
esac
