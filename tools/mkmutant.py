#!/usr/bin/env python3
"""mkmutant.py <name> <file> <old> <new> [<file> <old> <new> ...]  -> /verif/mutants/<name>.patch (repo left clean)"""
import subprocess, sys
name = sys.argv[1]
args = sys.argv[2:]
assert len(args) % 3 == 0
assert subprocess.run(['git', '-C', '/repo', 'status', '--porcelain', '--untracked-files=no'], capture_output=True, text=True).stdout.strip() == '', 'repo dirty'
try:
    for i in range(0, len(args), 3):
        f, old, new = args[i:i+3]
        p = '/repo/' + f
        s = open(p).read()
        assert s.count(old) == 1, (f, old, s.count(old))
        open(p, 'w').write(s.replace(old, new))
    d = subprocess.run(['git', '-C', '/repo', 'diff'], capture_output=True, text=True).stdout
    open(f'/verif/mutants/{name}.patch', 'w').write(d)
    print('wrote', name, len(d.splitlines()), 'lines')
finally:
    subprocess.run(['git', '-C', '/repo', 'checkout', '--', '.'])
