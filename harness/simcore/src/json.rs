//! Minimal JSON value, writer and parser (no external crates).

use std::fmt::Write as _;

#[derive(Clone, Debug, PartialEq)]
pub enum J {
    Null,
    Bool(bool),
    Int(i128),
    Num(f64),
    Str(String),
    Arr(Vec<J>),
    Obj(Vec<(String, J)>),
}

impl J {
    pub fn obj() -> Self {
        J::Obj(Vec::new())
    }
    pub fn set(&mut self, key: &str, value: J) -> &mut Self {
        if let J::Obj(items) = self {
            if let Some(item) = items.iter_mut().find(|(k, _)| k == key) {
                item.1 = value;
            } else {
                items.push((key.to_string(), value));
            }
        }
        self
    }
    pub fn with(mut self, key: &str, value: J) -> Self {
        self.set(key, value);
        self
    }
    pub fn get(&self, key: &str) -> Option<&J> {
        match self {
            J::Obj(items) => items.iter().find(|(k, _)| k == key).map(|(_, v)| v),
            _ => None,
        }
    }
    pub fn as_str(&self) -> Option<&str> {
        match self {
            J::Str(s) => Some(s),
            _ => None,
        }
    }
    pub fn as_u64(&self) -> Option<u64> {
        match self {
            J::Int(i) if *i >= 0 && *i <= i128::from(u64::MAX) => Some(*i as u64),
            _ => None,
        }
    }
    pub fn as_arr(&self) -> Option<&[J]> {
        match self {
            J::Arr(a) => Some(a),
            _ => None,
        }
    }
    pub fn s(v: impl Into<String>) -> J {
        J::Str(v.into())
    }
    pub fn u(v: u64) -> J {
        J::Int(i128::from(v))
    }
    pub fn us(v: usize) -> J {
        J::Int(v as i128)
    }
    pub fn arr_u64(v: &[u64]) -> J {
        J::Arr(v.iter().map(|x| J::u(*x)).collect())
    }

    pub fn to_string_pretty(&self) -> String {
        let mut out = String::new();
        self.write(&mut out, 0, true);
        out.push('\n');
        out
    }
    pub fn to_string_compact(&self) -> String {
        let mut out = String::new();
        self.write(&mut out, 0, false);
        out
    }

    fn write(&self, out: &mut String, indent: usize, pretty: bool) {
        match self {
            J::Null => out.push_str("null"),
            J::Bool(b) => out.push_str(if *b { "true" } else { "false" }),
            J::Int(i) => {
                let _ = write!(out, "{i}");
            }
            J::Num(f) => {
                if f.is_finite() {
                    let _ = write!(out, "{f:.3}");
                } else {
                    out.push_str("null");
                }
            }
            J::Str(s) => write_str(out, s),
            J::Arr(items) => {
                let simple = items
                    .iter()
                    .all(|i| !matches!(i, J::Arr(_) | J::Obj(_)));
                out.push('[');
                for (n, item) in items.iter().enumerate() {
                    if n > 0 {
                        out.push(',');
                    }
                    if pretty && !simple {
                        out.push('\n');
                        out.push_str(&" ".repeat(indent + 1));
                    } else if pretty && n > 0 {
                        out.push(' ');
                    }
                    item.write(out, indent + 1, pretty);
                }
                if pretty && !simple && !items.is_empty() {
                    out.push('\n');
                    out.push_str(&" ".repeat(indent));
                }
                out.push(']');
            }
            J::Obj(items) => {
                out.push('{');
                for (n, (k, v)) in items.iter().enumerate() {
                    if n > 0 {
                        out.push(',');
                    }
                    if pretty {
                        out.push('\n');
                        out.push_str(&" ".repeat(indent + 1));
                    }
                    write_str(out, k);
                    out.push(':');
                    if pretty {
                        out.push(' ');
                    }
                    v.write(out, indent + 1, pretty);
                }
                if pretty && !items.is_empty() {
                    out.push('\n');
                    out.push_str(&" ".repeat(indent));
                }
                out.push('}');
            }
        }
    }
}

fn write_str(out: &mut String, s: &str) {
    out.push('"');
    for c in s.chars() {
        match c {
            '"' => out.push_str("\\\""),
            '\\' => out.push_str("\\\\"),
            '\n' => out.push_str("\\n"),
            '\r' => out.push_str("\\r"),
            '\t' => out.push_str("\\t"),
            c if (c as u32) < 0x20 => {
                let _ = write!(out, "\\u{:04x}", c as u32);
            }
            c => out.push(c),
        }
    }
    out.push('"');
}

// ======================================================================
// PARSER

pub fn parse(text: &str) -> Result<J, String> {
    let mut p = Parser {
        b: text.as_bytes(),
        i: 0,
    };
    let v = p.value()?;
    p.ws();
    if p.i != p.b.len() {
        return Err(format!("trailing data at byte {}", p.i));
    }
    Ok(v)
}

struct Parser<'a> {
    b: &'a [u8],
    i: usize,
}

impl Parser<'_> {
    fn ws(&mut self) {
        while self.i < self.b.len() && matches!(self.b[self.i], b' ' | b'\n' | b'\r' | b'\t') {
            self.i += 1;
        }
    }
    fn eat(&mut self, c: u8) -> Result<(), String> {
        self.ws();
        if self.i < self.b.len() && self.b[self.i] == c {
            self.i += 1;
            Ok(())
        } else {
            Err(format!("expected '{}' at byte {}", c as char, self.i))
        }
    }
    fn value(&mut self) -> Result<J, String> {
        self.ws();
        let Some(&c) = self.b.get(self.i) else {
            return Err("unexpected end".into());
        };
        match c {
            b'{' => {
                self.i += 1;
                let mut items = Vec::new();
                self.ws();
                if self.b.get(self.i) == Some(&b'}') {
                    self.i += 1;
                    return Ok(J::Obj(items));
                }
                loop {
                    self.ws();
                    let k = self.string()?;
                    self.eat(b':')?;
                    let v = self.value()?;
                    items.push((k, v));
                    self.ws();
                    match self.b.get(self.i) {
                        Some(b',') => self.i += 1,
                        Some(b'}') => {
                            self.i += 1;
                            return Ok(J::Obj(items));
                        }
                        _ => return Err(format!("expected , or }} at byte {}", self.i)),
                    }
                }
            }
            b'[' => {
                self.i += 1;
                let mut items = Vec::new();
                self.ws();
                if self.b.get(self.i) == Some(&b']') {
                    self.i += 1;
                    return Ok(J::Arr(items));
                }
                loop {
                    items.push(self.value()?);
                    self.ws();
                    match self.b.get(self.i) {
                        Some(b',') => self.i += 1,
                        Some(b']') => {
                            self.i += 1;
                            return Ok(J::Arr(items));
                        }
                        _ => return Err(format!("expected , or ] at byte {}", self.i)),
                    }
                }
            }
            b'"' => Ok(J::Str(self.string()?)),
            b't' if self.b[self.i..].starts_with(b"true") => {
                self.i += 4;
                Ok(J::Bool(true))
            }
            b'f' if self.b[self.i..].starts_with(b"false") => {
                self.i += 5;
                Ok(J::Bool(false))
            }
            b'n' if self.b[self.i..].starts_with(b"null") => {
                self.i += 4;
                Ok(J::Null)
            }
            _ => {
                let start = self.i;
                while self.i < self.b.len()
                    && matches!(self.b[self.i], b'-' | b'+' | b'.' | b'e' | b'E' | b'0'..=b'9')
                {
                    self.i += 1;
                }
                let s = std::str::from_utf8(&self.b[start..self.i]).map_err(|e| e.to_string())?;
                if let Ok(i) = s.parse::<i128>() {
                    Ok(J::Int(i))
                } else if let Ok(f) = s.parse::<f64>() {
                    Ok(J::Num(f))
                } else {
                    Err(format!("bad token at byte {start}"))
                }
            }
        }
    }
    fn string(&mut self) -> Result<String, String> {
        self.ws();
        if self.b.get(self.i) != Some(&b'"') {
            return Err(format!("expected string at byte {}", self.i));
        }
        self.i += 1;
        let mut out = Vec::new();
        loop {
            let Some(&c) = self.b.get(self.i) else {
                return Err("unterminated string".into());
            };
            self.i += 1;
            match c {
                b'"' => break,
                b'\\' => {
                    let Some(&e) = self.b.get(self.i) else {
                        return Err("bad escape".into());
                    };
                    self.i += 1;
                    match e {
                        b'n' => out.push(b'\n'),
                        b'r' => out.push(b'\r'),
                        b't' => out.push(b'\t'),
                        b'b' => out.push(8),
                        b'f' => out.push(12),
                        b'u' => {
                            let hex = std::str::from_utf8(&self.b[self.i..self.i + 4])
                                .map_err(|e| e.to_string())?;
                            let cp = u32::from_str_radix(hex, 16).map_err(|e| e.to_string())?;
                            self.i += 4;
                            let ch = char::from_u32(cp).unwrap_or('?');
                            let mut buf = [0u8; 4];
                            out.extend_from_slice(ch.encode_utf8(&mut buf).as_bytes());
                        }
                        other => out.push(other),
                    }
                }
                c => out.push(c),
            }
        }
        String::from_utf8(out).map_err(|e| e.to_string())
    }
}
