//! The single source of every choice in a run.
//!
//! Record mode draws from the PRNG and appends to the decision vector.
//! Replay mode returns recorded values clamped to the bound, `0` once the vector is exhausted,
//! so *any* vector decodes to a valid run (that is what makes vector shrinking sound).

use crate::prng::Prng;

#[derive(Clone, Debug)]
pub struct Decision {
    pub site: &'static str,
    pub bound: u64,
    pub value: u64,
}

pub struct Chooser {
    prng: Option<Prng>,
    replay: Vec<u64>,
    pos: usize,
    pub trace: Vec<Decision>,
}

impl Chooser {
    pub fn record(seed: u64) -> Self {
        Self {
            prng: Some(Prng::new(seed)),
            replay: Vec::new(),
            pos: 0,
            trace: Vec::new(),
        }
    }

    pub fn replay(values: Vec<u64>) -> Self {
        Self {
            prng: None,
            replay: values,
            pos: 0,
            trace: Vec::new(),
        }
    }

    /// Uniform choice in `0..bound`.
    pub fn pick(&mut self, site: &'static str, bound: u64) -> u64 {
        let bound = bound.max(1);
        let value = match &mut self.prng {
            Some(prng) => prng.below(bound),
            None => {
                let v = self.replay.get(self.pos).copied().unwrap_or(0);
                self.pos += 1;
                if v >= bound {
                    bound - 1
                } else {
                    v
                }
            }
        };
        self.trace.push(Decision { site, bound, value });
        value
    }

    pub fn pick_usize(&mut self, site: &'static str, bound: usize) -> usize {
        self.pick(site, bound as u64) as usize
    }

    /// `true` with probability `num / den`. Value `0` (the shrink target) means `false`.
    pub fn chance(&mut self, site: &'static str, num: u64, den: u64) -> bool {
        // value in 0..den ; true iff value >= den - num
        let v = self.pick(site, den);
        v >= den - num.min(den)
    }

    /// Picks an index with the given integer weights. Index `0` is the shrink target.
    pub fn weighted(&mut self, site: &'static str, weights: &[u32]) -> usize {
        let total: u64 = weights.iter().map(|w| u64::from(*w)).sum();
        let mut v = self.pick(site, total.max(1));
        for (i, w) in weights.iter().enumerate() {
            let w = u64::from(*w);
            if v < w {
                return i;
            }
            v -= w;
        }
        0
    }

    /// A full 64-bit value (sub-seed for payload data and the like).
    pub fn seed64(&mut self, site: &'static str) -> u64 {
        self.pick(site, u64::MAX)
    }

    pub fn values(&self) -> Vec<u64> {
        self.trace.iter().map(|d| d.value).collect()
    }
}
