//! Decision-vector minimiser. Same code for every simulator.
//!
//! A candidate is kept only if re-running the real system on it yields the *same violation class*.

use std::time::{Duration, Instant};

pub struct ShrinkStats {
    pub executions: usize,
    pub from_len: usize,
    pub to_len: usize,
}

/// `run(vector)` returns `Some(class)` if the run violates, `None` otherwise.
pub fn shrink<F>(
    start: Vec<u64>,
    class: &str,
    max_exec: usize,
    max_time: Duration,
    mut run: F,
) -> (Vec<u64>, ShrinkStats)
where
    F: FnMut(&[u64]) -> Option<String>,
{
    let t0 = Instant::now();
    let mut best = start;
    let from_len = best.len();
    let mut execs = 0usize;

    let mut test = |cand: &[u64], execs: &mut usize| -> bool {
        *execs += 1;
        run(cand).as_deref() == Some(class)
    };
    let budget_left = |execs: usize| execs < max_exec && t0.elapsed() < max_time;

    // trailing zeros are implicit
    let strip = |v: &mut Vec<u64>| {
        while v.last() == Some(&0) {
            v.pop();
        }
    };
    strip(&mut best);

    let mut progress = true;
    while progress && budget_left(execs) {
        progress = false;

        // 1. truncate (binary search for the shortest failing prefix)
        let (mut lo, mut hi) = (0usize, best.len());
        while lo < hi && budget_left(execs) {
            let mid = (lo + hi) / 2;
            if test(&best[..mid], &mut execs) {
                hi = mid;
            } else {
                lo = mid + 1;
            }
        }
        if hi < best.len() && test(&best[..hi], &mut execs) {
            best.truncate(hi);
            strip(&mut best);
            progress = true;
        }

        // 2. delete chunks
        let mut size = (best.len() / 2).max(1);
        loop {
            let mut i = 0;
            while i + size <= best.len() && budget_left(execs) {
                let mut cand = best.clone();
                cand.drain(i..i + size);
                if test(&cand, &mut execs) {
                    best = cand;
                    strip(&mut best);
                    progress = true;
                } else {
                    i += size;
                }
            }
            if size == 1 || !budget_left(execs) {
                break;
            }
            size /= 2;
        }

        // 3. zero single values, then 4. lower them by bisection
        let mut i = 0;
        while i < best.len() && budget_left(execs) {
            if best[i] != 0 {
                let mut cand = best.clone();
                cand[i] = 0;
                if test(&cand, &mut execs) {
                    best = cand;
                    progress = true;
                } else {
                    let (mut lo, mut hi) = (0u64, best[i]);
                    // smallest failing value in (lo, hi]
                    while hi - lo > 1 && budget_left(execs) {
                        let mid = lo + (hi - lo) / 2;
                        let mut cand = best.clone();
                        cand[i] = mid;
                        if test(&cand, &mut execs) {
                            hi = mid;
                        } else {
                            lo = mid;
                        }
                    }
                    if hi < best[i] {
                        best[i] = hi;
                        progress = true;
                    }
                }
            }
            i += 1;
        }
        strip(&mut best);
    }

    let to_len = best.len();
    (
        best,
        ShrinkStats {
            executions: execs,
            from_len,
            to_len,
        },
    )
}
