//! R1 - the code as mathematics. Independent of the crate under test:
//! own field arithmetic from the two published constants (field polynomial and Cantor basis),
//! no FFT, no crate tables.

use std::sync::OnceLock;

pub const POLY: u32 = 0x1002D;
pub const CANTOR_BASIS: [u16; 16] = [
    0x0001, 0xACCA, 0x3C0E, 0x163E, 0xC582, 0xED2E, 0x914C, 0x4012, 0x6C98, 0x10D8, 0x6A72, 0xB900,
    0xFDB8, 0xFB34, 0xFF38, 0x991E,
];
const ORDER: usize = 65536;
const MODULUS: u32 = 65535;

/// Arithmetic on *symbols* (the 16-bit values stored in shards); the field element of a symbol is
/// the XOR of `CANTOR_BASIS[b]` over its set bits.
pub struct Field {
    /// symbol -> discrete log of its field element (entry 0 unused)
    log: Vec<u16>,
    /// discrete log (0..2*65535) -> symbol
    exp: Vec<u16>,
    /// symbol -> field element in the polynomial basis, and back
    phi: Vec<u16>,
    phi_inv: Vec<u16>,
}

pub fn field() -> &'static Field {
    static F: OnceLock<Field> = OnceLock::new();
    F.get_or_init(Field::build)
}

impl Field {
    fn build() -> Self {
        // polynomial-basis exp/log by LFSR
        let mut exp_std = vec![0u16; MODULUS as usize];
        let mut log_std = vec![0u16; ORDER];
        let mut x: u32 = 1;
        for i in 0..MODULUS {
            exp_std[i as usize] = x as u16;
            log_std[x as usize] = i as u16;
            x <<= 1;
            if x & 0x10000 != 0 {
                x ^= POLY;
            }
        }
        assert_eq!(x, 1, "0x1002D must be primitive");

        // basis change
        let mut phi = vec![0u16; ORDER];
        for s in 0..ORDER {
            let mut e = 0u16;
            for (b, basis) in CANTOR_BASIS.iter().enumerate() {
                if s >> b & 1 == 1 {
                    e ^= basis;
                }
            }
            phi[s] = e;
        }
        let mut phi_inv = vec![0u16; ORDER];
        let mut seen = vec![false; ORDER];
        for s in 0..ORDER {
            assert!(!seen[phi[s] as usize], "Cantor basis must be a basis");
            seen[phi[s] as usize] = true;
            phi_inv[phi[s] as usize] = s as u16;
        }

        let mut log = vec![0u16; ORDER];
        for s in 1..ORDER {
            log[s] = log_std[phi[s] as usize];
        }
        let mut exp = vec![0u16; 2 * MODULUS as usize];
        for l in 0..2 * MODULUS as usize {
            exp[l] = phi_inv[exp_std[l % MODULUS as usize] as usize];
        }
        Self {
            log,
            exp,
            phi,
            phi_inv,
        }
    }

    #[inline]
    pub fn mul(&self, a: u16, b: u16) -> u16 {
        if a == 0 || b == 0 {
            0
        } else {
            self.exp[self.log[a as usize] as usize + self.log[b as usize] as usize]
        }
    }

    #[inline]
    pub fn div(&self, a: u16, b: u16) -> u16 {
        assert!(b != 0);
        if a == 0 {
            0
        } else {
            self.exp[self.log[a as usize] as usize + MODULUS as usize - self.log[b as usize] as usize]
        }
    }

    #[inline]
    pub fn log_of(&self, a: u16) -> u32 {
        debug_assert!(a != 0);
        u32::from(self.log[a as usize])
    }

    #[inline]
    pub fn exp_of(&self, l: u32) -> u16 {
        self.exp[l as usize]
    }

    /// Second, slow formulation of the symbol product: carry-less multiplication of the field
    /// elements modulo the field polynomial. Used only by the self-test.
    pub fn mul_slow(&self, a: u16, b: u16) -> u16 {
        let (x, y) = (u32::from(self.phi[a as usize]), u32::from(self.phi[b as usize]));
        let mut acc: u32 = 0;
        for bit in (0..16).rev() {
            acc <<= 1;
            if acc & 0x10000 != 0 {
                acc ^= POLY;
            }
            if y >> bit & 1 == 1 {
                acc ^= x;
            }
        }
        self.phi_inv[acc as usize]
    }
}

// ======================================================================
// Symbols <-> bytes (the placement C04 states)

/// Number of 16-bit symbol slots of a shard of `len` bytes (even).
pub fn slot_count(len: usize) -> usize {
    len / 2
}

/// Byte offsets (low byte, high byte) of symbol slot `slot` in a shard of `len` bytes.
pub fn slot_offsets(len: usize, slot: usize) -> (usize, usize) {
    let full_blocks = len / 64;
    let block = slot / 32;
    if block < full_blocks {
        let t = slot % 32;
        (block * 64 + t, block * 64 + 32 + t)
    } else {
        let tail = len - full_blocks * 64; // bytes in the final partial block
        let t = slot - full_blocks * 32;
        debug_assert!(t < tail / 2);
        (full_blocks * 64 + t, full_blocks * 64 + tail / 2 + t)
    }
}

#[inline]
pub fn get_symbol(shard: &[u8], slot: usize) -> u16 {
    let (lo, hi) = slot_offsets(shard.len(), slot);
    u16::from(shard[lo]) | u16::from(shard[hi]) << 8
}

#[inline]
pub fn put_symbol(shard: &mut [u8], slot: usize, v: u16) {
    let (lo, hi) = slot_offsets(shard.len(), slot);
    shard[lo] = v as u8;
    shard[hi] = (v >> 8) as u8;
}

// ======================================================================
// The scaled Cauchy matrix

#[derive(Clone, Copy, Debug, PartialEq, Eq, Hash, PartialOrd, Ord)]
pub enum Rate {
    High,
    Low,
}

pub struct Code {
    pub rate: Rate,
    pub k: usize,
    pub r: usize,
    pub m: usize,
    /// s_m(1 << b) for every bit b
    s_basis: [u16; 16],
    log_w: u32,
}

impl Code {
    pub fn new(rate: Rate, k: usize, r: usize) -> Self {
        let f = field();
        let m = match rate {
            Rate::High => r.next_power_of_two(),
            Rate::Low => k.next_power_of_two(),
        };
        assert!(m <= 32768 && m + match rate { Rate::High => k, Rate::Low => r } <= 65536);
        let mut s_basis = [0u16; 16];
        for (b, out) in s_basis.iter_mut().enumerate() {
            let x = 1usize << b;
            if x >= m {
                *out = Self::s_direct(m, x as u16);
            }
        }
        let mut w = 1u16;
        for p in 1..m {
            w = f.mul(w, p as u16);
        }
        Self {
            rate,
            k,
            r,
            m,
            s_basis,
            log_w: f.log_of(w),
        }
    }

    /// s_m(x) = product over p < m of (x xor p), directly.
    pub fn s_direct(m: usize, x: u16) -> u16 {
        let f = field();
        let mut acc = 1u16;
        for p in 0..m {
            acc = f.mul(acc, x ^ p as u16);
        }
        acc
    }

    /// s_m(x) through additivity of the linearised polynomial.
    pub fn s(&self, x: u16) -> u16 {
        let mut acc = 0u16;
        for b in 0..16 {
            if x >> b & 1 == 1 {
                acc ^= self.s_basis[b];
            }
        }
        acc
    }

    /// log of G[j][i] (every entry is non-zero).
    pub fn log_g(&self, j: usize, i: usize) -> u32 {
        let f = field();
        debug_assert!(j < self.r && i < self.k);
        let (num, den) = match self.rate {
            Rate::High => {
                let x = (self.m + i) as u16;
                (self.s(x), j as u16 ^ x)
            }
            Rate::Low => {
                let x = (self.m + j) as u16;
                (self.s(x), x ^ i as u16)
            }
        };
        (f.log_of(num) + 2 * MODULUS - self.log_w - f.log_of(den)) % MODULUS
    }

    /// Reference recovery symbols of row `j` for the given slots.
    /// `orig_syms[i][n]` is the symbol of original `i` at `slots[n]`.
    pub fn recovery_row(&self, j: usize, orig_syms: &[Vec<u16>], nslots: usize) -> Vec<u16> {
        let f = field();
        let mut out = vec![0u16; nslots];
        for (i, syms) in orig_syms.iter().enumerate() {
            let lg = self.log_g(j, i);
            for (o, s) in out.iter_mut().zip(syms.iter()) {
                if *s != 0 {
                    *o ^= f.exp_of(lg + f.log_of(*s));
                }
            }
        }
        out
    }

    /// Full reference encoding: all recovery shards, all slots.
    pub fn encode(&self, originals: &[Vec<u8>]) -> Vec<Vec<u8>> {
        assert_eq!(originals.len(), self.k);
        let len = originals[0].len();
        let nslots = slot_count(len);
        let syms: Vec<Vec<u16>> = originals
            .iter()
            .map(|o| (0..nslots).map(|s| get_symbol(o, s)).collect())
            .collect();
        (0..self.r)
            .map(|j| {
                let row = self.recovery_row(j, &syms, nslots);
                let mut shard = vec![0u8; len];
                for (s, v) in row.iter().enumerate() {
                    put_symbol(&mut shard, s, *v);
                }
                shard
            })
            .collect()
    }

    /// Reference values of a subset: returns `out[a][b]` = symbol of recovery row `rows[a]` at `slots[b]`.
    pub fn encode_subset(
        &self,
        originals: &[Vec<u8>],
        rows: &[usize],
        slots: &[usize],
    ) -> Vec<Vec<u16>> {
        let syms: Vec<Vec<u16>> = originals
            .iter()
            .map(|o| slots.iter().map(|s| get_symbol(o, *s)).collect())
            .collect();
        rows.iter()
            .map(|j| self.recovery_row(*j, &syms, slots.len()))
            .collect()
    }
}

// ======================================================================
// Self-test (two formulations of the same definitions must agree)

pub fn self_test() -> Result<(), String> {
    let f = field();
    let mut s = 0x1234_5678_9ABC_DEF0u64;
    for n in 0..20000u32 {
        let v = crate::prng::splitmix64(&mut s);
        let (a, b) = match n {
            0 => (0, 5),
            1 => (1, 0xFFFF),
            2 => (0xFFFF, 0xFFFF),
            _ => (v as u16, (v >> 16) as u16),
        };
        if f.mul(a, b) != f.mul_slow(a, b) {
            return Err(format!("R1 self-test: mul({a},{b}) table {} != slow {}", f.mul(a, b), f.mul_slow(a, b)));
        }
        if b != 0 && f.mul(f.div(a, b), b) != a {
            return Err(format!("R1 self-test: div({a},{b})"));
        }
    }
    // symbol 1 is the multiplicative identity (CANTOR_BASIS[0] == 1)
    if f.mul(1, 0xBEEF) != 0xBEEF {
        return Err("R1 self-test: 1 is not the identity".into());
    }
    for (rate, k, r) in [(Rate::High, 5, 3), (Rate::High, 9, 2), (Rate::Low, 3, 5), (Rate::Low, 2, 9), (Rate::High, 100, 33)] {
        let c = Code::new(rate, k, r);
        for x in [c.m, c.m + 1, c.m + 7, 2 * c.m + 3, 65535] {
            if x < 65536 && c.s(x as u16) != Code::s_direct(c.m, x as u16) {
                return Err(format!("R1 self-test: s_{}({x}) additive != direct", c.m));
            }
        }
        for p in 0..c.m {
            if c.s(p as u16) != 0 {
                return Err(format!("R1 self-test: s_{}({p}) != 0", c.m));
            }
        }
    }
    // slot placement: a permutation of the bytes for every even length
    for len in (2..=200).step_by(2) {
        let mut seen = vec![false; len];
        for slot in 0..slot_count(len) {
            let (lo, hi) = slot_offsets(len, slot);
            if lo >= len || hi >= len || seen[lo] || seen[hi] || lo == hi {
                return Err(format!("R1 self-test: slot placement len {len} slot {slot}"));
            }
            seen[lo] = true;
            seen[hi] = true;
        }
        if seen.iter().any(|s| !s) {
            return Err(format!("R1 self-test: slot placement len {len} not onto"));
        }
    }
    Ok(())
}
