//! Simulator core: no dependency on the crate under test.

pub mod chooser;
pub mod countalloc;
pub mod envelope;
pub mod gf;
pub mod json;
pub mod prng;
pub mod shrink;

pub use chooser::Chooser;
pub use json::J;
