//! Own PRNG: splitmix64 for seeding / mixing, xoshiro256** for streams.

#[inline]
pub fn splitmix64(state: &mut u64) -> u64 {
    *state = state.wrapping_add(0x9E37_79B9_7F4A_7C15);
    let mut z = *state;
    z = (z ^ (z >> 30)).wrapping_mul(0xBF58_476D_1CE4_E5B9);
    z = (z ^ (z >> 27)).wrapping_mul(0x94D0_49BB_1331_11EB);
    z ^ (z >> 31)
}

#[inline]
fn finalize(mut z: u64) -> u64 {
    z = (z ^ (z >> 30)).wrapping_mul(0xBF58_476D_1CE4_E5B9);
    z = (z ^ (z >> 27)).wrapping_mul(0x94D0_49BB_1331_11EB);
    z ^ (z >> 31)
}

/// Mixes several integers into one seed (every part goes through a full avalanche).
pub fn mix(parts: &[u64]) -> u64 {
    let mut h = 0x243F_6A88_85A3_08D3u64;
    for (n, p) in parts.iter().enumerate() {
        let x = finalize(p.wrapping_add(0x9E37_79B9_7F4A_7C15u64.wrapping_mul(n as u64 + 1)));
        h = finalize(h.rotate_left(23) ^ x).wrapping_add(0xD6E8_FEB8_6659_FD93);
    }
    finalize(h)
}

#[derive(Clone, Debug)]
pub struct Prng {
    s: [u64; 4],
}

impl Prng {
    pub fn new(seed: u64) -> Self {
        let mut sm = seed;
        let s = [
            splitmix64(&mut sm),
            splitmix64(&mut sm),
            splitmix64(&mut sm),
            splitmix64(&mut sm),
        ];
        Self { s }
    }

    #[inline]
    pub fn next_u64(&mut self) -> u64 {
        let result = self.s[1].wrapping_mul(5).rotate_left(7).wrapping_mul(9);
        let t = self.s[1] << 17;
        self.s[2] ^= self.s[0];
        self.s[3] ^= self.s[1];
        self.s[1] ^= self.s[2];
        self.s[0] ^= self.s[3];
        self.s[2] ^= t;
        self.s[3] = self.s[3].rotate_left(45);
        result
    }

    /// Uniform in `0..bound` (`bound >= 1`), by multiply-shift (bias < 2^-64 * bound, irrelevant here).
    #[inline]
    pub fn below(&mut self, bound: u64) -> u64 {
        debug_assert!(bound >= 1);
        ((u128::from(self.next_u64()) * u128::from(bound)) >> 64) as u64
    }

    pub fn fill(&mut self, buf: &mut [u8]) {
        for chunk in buf.chunks_mut(8) {
            let v = self.next_u64().to_le_bytes();
            chunk.copy_from_slice(&v[..chunk.len()]);
        }
    }
}

/// Rolling 128-bit hash of the event log (two independent 64-bit FNV-style lanes).
#[derive(Clone, Copy, Debug, PartialEq, Eq)]
pub struct LogHash(pub u64, pub u64);

impl Default for LogHash {
    fn default() -> Self {
        Self(0xcbf2_9ce4_8422_2325, 0x6c62_272e_07bb_0142)
    }
}

impl LogHash {
    #[inline]
    pub fn feed_u64(&mut self, v: u64) {
        self.0 = (self.0 ^ v).wrapping_mul(0x0000_0100_0000_01B3);
        self.0 ^= self.0 >> 29;
        self.1 = (self.1 ^ v.rotate_left(32)).wrapping_mul(0x9E37_79B9_7F4A_7C15);
        self.1 ^= self.1 >> 31;
    }
    pub fn feed_bytes(&mut self, b: &[u8]) {
        self.feed_u64(b.len() as u64);
        for chunk in b.chunks(8) {
            let mut w = [0u8; 8];
            w[..chunk.len()].copy_from_slice(chunk);
            self.feed_u64(u64::from_le_bytes(w));
        }
    }
    pub fn feed_str(&mut self, s: &str) {
        self.feed_bytes(s.as_bytes());
    }
    pub fn hex(&self) -> String {
        format!("{:016x}{:016x}", self.0, self.1)
    }
}
