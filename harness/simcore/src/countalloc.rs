//! Counting allocator (F13): per-thread counters of what the allocator is asked for.
//! Installed by the simulator binary with `#[global_allocator]`.

use std::alloc::{GlobalAlloc, Layout, System};
use std::cell::Cell;

#[derive(Clone, Copy, Debug, Default, PartialEq, Eq)]
pub struct AllocStats {
    /// number of alloc / realloc-grow requests
    pub calls: u64,
    /// sum of requested sizes
    pub bytes: u64,
    /// largest single request
    pub largest: u64,
    /// number of requests of at least `BIG` bytes
    pub big_calls: u64,
}

pub const BIG: u64 = 64;

thread_local! {
    static STATS: Cell<AllocStats> = const { Cell::new(AllocStats { calls: 0, bytes: 0, largest: 0, big_calls: 0 }) };
    static ACTIVE: Cell<bool> = const { Cell::new(false) };
}

pub struct CountingAlloc;

#[inline]
fn note(size: usize) {
    // `try_with`: the allocator may be called during thread teardown
    let _ = ACTIVE.try_with(|a| {
        if a.get() {
            let _ = STATS.try_with(|s| {
                let mut st = s.get();
                st.calls += 1;
                st.bytes += size as u64;
                if size as u64 > st.largest {
                    st.largest = size as u64;
                }
                if size as u64 >= BIG {
                    st.big_calls += 1;
                }
                s.set(st);
            });
        }
    });
}

/// Fault F21, "an allocator that honours alignment literally": a request for alignment 1 (what `Vec<u8>` and
/// `Vec<[u8; 64]>` - the crate's working space - ask for) gets a block that starts 0..12 bytes past a 16-byte
/// boundary, as bump and arena allocators hand out and as `GlobalAlloc` permits; glibc's malloc never does, so code
/// that silently relies on 16-byte (or 8-byte) alignment of byte buffers is otherwise never exercised through the
/// codecs. The shift is a function of the requested size alone (no state: `dealloc` recomputes it), zero for some
/// sizes so that aligned buffers stay in the mix.
#[inline]
fn shift_for(layout: Layout) -> usize {
    const SHIFT: [usize; 8] = [0, 1, 8, 0, 4, 2, 0, 12];
    if layout.align() == 1 && layout.size() >= 64 {
        SHIFT[(layout.size() >> 6) % 8]
    } else {
        0
    }
}

#[inline]
unsafe fn padded(layout: Layout) -> Layout {
    // 16 spare bytes in front, base aligned to 16 so that the shift is what decides the final alignment
    unsafe { Layout::from_size_align_unchecked(layout.size() + 16, 16) }
}

unsafe impl GlobalAlloc for CountingAlloc {
    unsafe fn alloc(&self, layout: Layout) -> *mut u8 {
        note(layout.size());
        let shift = shift_for(layout);
        if shift == 0 {
            return unsafe { System.alloc(layout) };
        }
        let base = unsafe { System.alloc(padded(layout)) };
        if base.is_null() {
            base
        } else {
            unsafe { base.add(shift) }
        }
    }
    unsafe fn dealloc(&self, ptr: *mut u8, layout: Layout) {
        let shift = shift_for(layout);
        if shift == 0 {
            unsafe { System.dealloc(ptr, layout) }
        } else {
            unsafe { System.dealloc(ptr.sub(shift), padded(layout)) }
        }
    }
    unsafe fn alloc_zeroed(&self, layout: Layout) -> *mut u8 {
        note(layout.size());
        let shift = shift_for(layout);
        if shift == 0 {
            return unsafe { System.alloc_zeroed(layout) };
        }
        let base = unsafe { System.alloc_zeroed(padded(layout)) };
        if base.is_null() {
            base
        } else {
            unsafe { base.add(shift) }
        }
    }
    unsafe fn realloc(&self, ptr: *mut u8, layout: Layout, new_size: usize) -> *mut u8 {
        if new_size > layout.size() {
            note(new_size);
        }
        let new_layout = unsafe { Layout::from_size_align_unchecked(new_size, layout.align()) };
        let (old_shift, new_shift) = (shift_for(layout), shift_for(new_layout));
        if old_shift == 0 && new_shift == 0 {
            return unsafe { System.realloc(ptr, layout, new_size) };
        }
        // the block moves to wherever the new size's shift puts it
        let fresh = if new_shift == 0 {
            unsafe { System.alloc(new_layout) }
        } else {
            let base = unsafe { System.alloc(padded(new_layout)) };
            if base.is_null() {
                base
            } else {
                unsafe { base.add(new_shift) }
            }
        };
        if !fresh.is_null() {
            unsafe {
                std::ptr::copy_nonoverlapping(ptr, fresh, layout.size().min(new_size));
                if old_shift == 0 {
                    System.dealloc(ptr, layout);
                } else {
                    System.dealloc(ptr.sub(old_shift), padded(layout));
                }
            }
        }
        fresh
    }
}

/// Runs `f` as a measured region on this thread and returns what was requested inside it.
/// Regions do not nest.
pub fn measure<R>(f: impl FnOnce() -> R) -> (R, AllocStats) {
    STATS.with(|s| s.set(AllocStats::default()));
    ACTIVE.with(|a| a.set(true));
    let r = f();
    ACTIVE.with(|a| a.set(false));
    (r, STATS.with(Cell::get))
}

/// Runs `f` outside any measured region of this thread (harness work in the middle of a measured call).
pub fn unmeasured<R>(f: impl FnOnce() -> R) -> R {
    let was = ACTIVE.with(|a| a.replace(false));
    let r = f();
    ACTIVE.with(|a| a.set(was));
    r
}
