//! Counting allocator (F13): per-thread counters of what the allocator is asked for.
//! Installed by the simulator binary with `#[global_allocator]`.

use std::alloc::{GlobalAlloc, Layout, System};
use std::cell::Cell;

#[derive(Clone, Copy, Debug, Default, PartialEq, Eq)]
pub struct AllocStats {
    /// number of alloc / realloc-grow requests
    pub calls: u64,
    /// sum of requested sizes
    pub bytes: u64,
    /// largest single request
    pub largest: u64,
    /// number of requests of at least `BIG` bytes
    pub big_calls: u64,
}

pub const BIG: u64 = 64;

thread_local! {
    static STATS: Cell<AllocStats> = const { Cell::new(AllocStats { calls: 0, bytes: 0, largest: 0, big_calls: 0 }) };
    static ACTIVE: Cell<bool> = const { Cell::new(false) };
}

pub struct CountingAlloc;

#[inline]
fn note(size: usize) {
    // `try_with`: the allocator may be called during thread teardown
    let _ = ACTIVE.try_with(|a| {
        if a.get() {
            let _ = STATS.try_with(|s| {
                let mut st = s.get();
                st.calls += 1;
                st.bytes += size as u64;
                if size as u64 > st.largest {
                    st.largest = size as u64;
                }
                if size as u64 >= BIG {
                    st.big_calls += 1;
                }
                s.set(st);
            });
        }
    });
}

unsafe impl GlobalAlloc for CountingAlloc {
    unsafe fn alloc(&self, layout: Layout) -> *mut u8 {
        note(layout.size());
        unsafe { System.alloc(layout) }
    }
    unsafe fn dealloc(&self, ptr: *mut u8, layout: Layout) {
        unsafe { System.dealloc(ptr, layout) }
    }
    unsafe fn alloc_zeroed(&self, layout: Layout) -> *mut u8 {
        note(layout.size());
        unsafe { System.alloc_zeroed(layout) }
    }
    unsafe fn realloc(&self, ptr: *mut u8, layout: Layout, new_size: usize) -> *mut u8 {
        if new_size > layout.size() {
            note(new_size);
        }
        unsafe { System.realloc(ptr, layout, new_size) }
    }
}

/// Runs `f` as a measured region on this thread and returns what was requested inside it.
/// Regions do not nest.
pub fn measure<R>(f: impl FnOnce() -> R) -> (R, AllocStats) {
    STATS.with(|s| s.set(AllocStats::default()));
    ACTIVE.with(|a| a.set(true));
    let r = f();
    ACTIVE.with(|a| a.set(false));
    (r, STATS.with(Cell::get))
}

/// Runs `f` outside any measured region of this thread (harness work in the middle of a measured call).
pub fn unmeasured<R>(f: impl FnOnce() -> R) -> R {
    let was = ACTIVE.with(|a| a.replace(false));
    let r = f();
    ACTIVE.with(|a| a.set(was));
    r
}
