//! R4 - supported envelope and rate selection rule, restated from the README table and the
//! property statements with explicit loops (deliberately not in the crate's algebraic shape).
//! R5 - working-space need.

#[derive(Clone, Copy, Debug, PartialEq, Eq, Hash, PartialOrd, Ord)]
pub enum Family {
    Default,
    High,
    Low,
}

impl Family {
    pub fn name(self) -> &'static str {
        match self {
            Family::Default => "default",
            Family::High => "high",
            Family::Low => "low",
        }
    }
}

/// recovery_count is the power-of-two-bounded side: r <= 2^n and k <= 65536 - 2^n for some n.
pub fn high_supported(k: usize, r: usize) -> bool {
    if k < 1 || r < 1 {
        return false;
    }
    for n in 0..=16u32 {
        let p: usize = 1 << n;
        if r <= p && k <= 65536 - p {
            return true;
        }
    }
    false
}

/// original_count is the power-of-two-bounded side.
pub fn low_supported(k: usize, r: usize) -> bool {
    if k < 1 || r < 1 {
        return false;
    }
    for n in 0..=16u32 {
        let p: usize = 1 << n;
        if k <= p && r <= 65536 - p {
            return true;
        }
    }
    false
}

pub fn default_supported(k: usize, r: usize) -> bool {
    high_supported(k, r) || low_supported(k, r)
}

pub fn supported(fam: Family, k: usize, r: usize) -> bool {
    match fam {
        Family::Default => default_supported(k, r),
        Family::High => high_supported(k, r),
        Family::Low => low_supported(k, r),
    }
}

/// Smallest power of two >= x, by loop (x >= 1).
pub fn np2(x: usize) -> usize {
    let mut p = 1usize;
    while p < x {
        p *= 2;
    }
    p
}

/// The selection rule of C09 (only meaningful for supported pairs).
pub fn default_is_high(k: usize, r: usize) -> bool {
    let (pk, pr) = (np2(k), np2(r));
    pk > pr || (pk == pr && k <= r)
}

/// Which dedicated rate a family uses for (k, r).
pub fn effective_high(fam: Family, k: usize, r: usize) -> bool {
    match fam {
        Family::High => true,
        Family::Low => false,
        Family::Default => default_is_high(k, r),
    }
}

pub fn ok_bytes(b: usize) -> bool {
    b != 0 && b % 2 == 0
}

fn round_up(x: usize, m: usize) -> usize {
    x.div_ceil(m) * m
}

/// R5: number of 64-byte blocks of shard memory and number of bitmap bits a codec needs.
#[derive(Clone, Copy, Debug, Default, PartialEq, Eq)]
pub struct Need {
    pub blocks: usize,
    pub bitmap_bits: usize,
}

pub fn encoder_need(high: bool, k: usize, r: usize, bytes: usize) -> Need {
    let positions = if high {
        round_up(k, np2(r))
    } else {
        round_up(r, np2(k))
    };
    Need {
        blocks: positions * bytes.div_ceil(64),
        bitmap_bits: 0,
    }
}

pub fn decoder_need(high: bool, k: usize, r: usize, bytes: usize) -> Need {
    let (positions, bits) = if high {
        (np2(np2(r) + k), np2(r) + k)
    } else {
        (np2(np2(k) + r), np2(k) + r)
    };
    Need {
        blocks: positions * bytes.div_ceil(64),
        bitmap_bits: bits,
    }
}

/// The staircase corners of the README table: (2^16 - 2^n, 2^n) and mirrored, n = 0..=16.
pub fn corners() -> Vec<(usize, usize)> {
    let mut v = Vec::new();
    for n in 0..=16u32 {
        let p = 1usize << n;
        v.push((65536 - p, p));
        v.push((p, 65536 - p));
    }
    v.sort_unstable();
    v.dedup();
    v
}

pub fn self_test() -> Result<(), String> {
    // README rows, read literally
    let rows = [
        (61440, 4096),
        (57344, 8192),
        (49152, 16384),
        (32768, 32768),
        (16384, 49152),
        (8192, 57344),
        (4096, 61440),
    ];
    for (k, r) in rows {
        if !default_supported(k, r) {
            return Err(format!("R4 self-test: README row ({k},{r}) not supported"));
        }
        if default_supported(k + 1, r) && default_supported(k, r + 1) && k != 32768 {
            // at a staircase corner at least one neighbour must be outside
            return Err(format!("R4 self-test: ({k},{r}) is not a corner"));
        }
    }
    for (k, r, want) in [
        (0, 1, false),
        (1, 0, false),
        (1, 1, true),
        (65535, 1, true),
        (1, 65535, true),
        (65536, 1, false),
        (1, 65536, false),
        (65535, 2, false),
        (32768, 32768, true),
        (32769, 32768, false),
        (32768, 32769, false),
        (61441, 4096, false),
        (61440, 4097, false),
        (usize::MAX, 1, false),
        (1, usize::MAX, false),
    ] {
        if default_supported(k, r) != want {
            return Err(format!("R4 self-test: supported({k},{r}) != {want}"));
        }
    }
    // high: r pow2-bounded side
    if !high_supported(65535, 1) || high_supported(1, 65535) || !low_supported(1, 65535) || low_supported(65535, 1) {
        return Err("R4 self-test: dedicated-rate asymmetry".into());
    }
    if !default_is_high(3, 2) || default_is_high(2, 3) || !default_is_high(3, 3) || !default_is_high(3, 4) || default_is_high(4, 3) || default_is_high(2, 5) {
        return Err("R4 self-test: selection rule".into());
    }
    if np2(1) != 1 || np2(2) != 2 || np2(3) != 4 || np2(65535) != 65536 {
        return Err("R4 self-test: np2".into());
    }
    Ok(())
}
