// lib.rs includes OUT_DIR/README-rustdocified.md as crate documentation; the text is irrelevant here.
use std::{env, fs, path::PathBuf};
fn main() {
    println!("cargo:rerun-if-changed=/repo/README.md");
    let readme = fs::read_to_string("/repo/README.md").unwrap_or_default();
    // keep it out of doctests: plain text block
    let body = format!("Shadow build of reed-solomon-simd.\n\n```text\n{}\n```\n", readme.replace("```", "'''"));
    fs::write(PathBuf::from(env::var("OUT_DIR").unwrap()).join("README-rustdocified.md"), body).unwrap();
}
