//! tsim - Sim C: threads under a scheduler the simulator owns (shuttle).
//!
//! One shuttle execution = one "process start": the crate's lazy tables are cold (hook H4 routes them
//! through shuttle's per-execution lazy storage, whose `Once` is a scheduling point), 2-4 threads draw an
//! engine each (touching different subsets of the interdependent tables), build codecs, run rounds, and
//! sometimes hand a half-filled object to another thread. The workload is drawn from `shuttle::rand`,
//! so it is part of the recorded schedule. Oracle: every result equals R1 / the original bytes;
//! shuttle reports deadlock (all threads blocked) and propagates panics.

use std::collections::{BTreeMap, BTreeSet};
use std::sync::atomic::{AtomicU64, Ordering};
use std::sync::{Arc, Mutex};
use std::time::Instant;

use reed_solomon_simd::engine::{Avx2, DefaultEngine, Engine, Naive, NoSimd, Ssse3};
use reed_solomon_simd::rate::{
    DefaultRateDecoder, DefaultRateEncoder, HighRateDecoder, HighRateEncoder, LowRateDecoder,
    LowRateEncoder, RateDecoder, RateEncoder,
};
use reed_solomon_simd::{ReedSolomonDecoder, ReedSolomonEncoder};
use shuttle::rand::Rng;
use shuttle::scheduler::{PctScheduler, RandomScheduler, Schedule, Scheduler, Task, TaskId};
use shuttle::{Config, FailurePersistence, MaxSteps, Runner};
use simcore::envelope;
use simcore::gf::{Code, Rate};
use simcore::json::{self, J};

// ======================================================================
// Probes (reach measures), global across executions

static P_EXECUTIONS: AtomicU64 = AtomicU64::new(0);
static P_ROUNDS: AtomicU64 = AtomicU64::new(0);
static P_HANDOVERS: AtomicU64 = AtomicU64::new(0);
static P_FINISHED_BY_OTHER: AtomicU64 = AtomicU64::new(0);
static P_ENGINE: [AtomicU64; 6] = [AtomicU64::new(0), AtomicU64::new(0), AtomicU64::new(0), AtomicU64::new(0), AtomicU64::new(0), AtomicU64::new(0)];
static P_DECODES: AtomicU64 = AtomicU64::new(0);
static P_CROWDS: AtomicU64 = AtomicU64::new(0);
static P_CLONES: AtomicU64 = AtomicU64::new(0);
static P_DIRECT_POLY: AtomicU64 = AtomicU64::new(0);

const ENGINE_NAMES: [&str; 6] = ["Naive", "NoSimd", "Ssse3", "Avx2", "DefaultEngine", "SlowPoly(NoSimd)"];

// ======================================================================
// Scenario

fn violation(msg: String) -> ! {
    panic!("C16-VIOLATION: {msg}");
}

#[derive(Clone)]
struct Job {
    engine: usize,
    layer: usize, // 0 ReedSolomon, 1 DefaultRate, 2 HighRate, 3 LowRate, 4 one-shot encode()/decode()
    k: usize,
    r: usize,
    b: usize,
    rounds: usize,
    handover: bool,
    /// the thread's first act is a direct call of the public `utils::eval_poly` (no engine constructed yet)
    direct_poly: bool,
    data_seed: u64,
    lose_seed: u64,
    /// this thread's first shard is produced lazily: its `as_ref()` blocks until the partner thread has opened the gate
    gate_wait: Option<Arc<Gate>>,
    /// this thread opens the partner's gate once its own job is done
    gate_open: Option<Arc<Gate>>,
}

/// A rendezvous between two threads' caller code (not between their codecs, which stay independent).
struct Gate {
    open: shuttle::sync::Mutex<bool>,
    cv: shuttle::sync::Condvar,
}

/// A shard that is produced on demand by another thread (a two-level code, a pipeline stage): `as_ref()` waits for it.
struct LazyShard<'a> {
    gate: &'a Gate,
    data: &'a [u8],
}

impl AsRef<[u8]> for LazyShard<'_> {
    fn as_ref(&self) -> &[u8] {
        let mut open = self.gate.open.lock().unwrap();
        while !*open {
            open = self.gate.cv.wait(open).unwrap();
        }
        self.data
    }
}

static P_LAZY: AtomicU64 = AtomicU64::new(0);

fn draw_job(rng: &mut impl Rng) -> Job {
    let mut engine = rng.gen_range(0..5usize);
    if (engine == 2 && !std::is_x86_feature_detected!("ssse3")) || (engine == 3 && !std::is_x86_feature_detected!("avx2")) {
        engine = 1;
    }
    let layer = rng.gen_range(0..5usize);
    let engine = if layer == 0 || layer == 4 { 4 } else { engine };
    Job {
        engine,
        layer,
        k: rng.gen_range(1..=4),
        r: rng.gen_range(1..=4),
        b: [2usize, 64, 66][rng.gen_range(0..3usize)],
        rounds: rng.gen_range(1..=2),
        handover: rng.gen_range(0..3u32) == 0,
        direct_poly: rng.gen_range(0..5u32) == 0,
        data_seed: rng.gen(),
        lose_seed: rng.gen(),
        gate_wait: None,
        gate_open: None,
    }
}

fn originals_of(job: &Job, round: usize) -> Vec<Vec<u8>> {
    (0..job.k)
        .map(|i| {
            let mut v = vec![0u8; job.b];
            simcore::prng::Prng::new(simcore::prng::mix(&[job.data_seed, round as u64, i as u64])).fill(&mut v);
            v
        })
        .collect()
}

fn is_high(job: &Job) -> bool {
    match job.layer {
        2 => true,
        3 => false,
        _ => envelope::default_is_high(job.k, job.r),
    }
}

shuttle::thread_local! {
    /// Codecs a thread keeps for "next time" in thread-local storage, as worker threads of a pool do: they are
    /// dropped when the thread exits, by the thread-local destructors. One slot is first touched when the thread
    /// starts (before the crate had a chance to create thread-locals of its own), the other when the first codec is
    /// parked (after it): platforms destroy thread-locals in different orders, shuttle in order of first use.
    static PARKED_EARLY: std::cell::RefCell<Vec<Box<dyn std::any::Any>>> = std::cell::RefCell::new(Vec::new());
    static PARKED_LATE: std::cell::RefCell<Vec<Box<dyn std::any::Any>>> = std::cell::RefCell::new(Vec::new());
}

static P_PARKED: AtomicU64 = AtomicU64::new(0);

/// Parks `codec` in one of the thread's slots (two jobs in three do).
fn park(codec: Box<dyn std::any::Any>, coin: u64) {
    match coin % 3 {
        0 => PARKED_EARLY.with(|p| p.borrow_mut().push(codec)),
        1 => PARKED_LATE.with(|p| p.borrow_mut().push(codec)),
        _ => return,
    }
    P_PARKED.fetch_add(1, Ordering::Relaxed);
}

/// A decoder that lives longer than any one thread's job: it sits in a pool, every thread takes it out for a whole
/// round now and then and puts it back, so it keeps coming back to threads that used it before, with loss patterns
/// that repeat (objects "moved between threads" between rounds, not only in the middle of one).
enum MigrantDec {
    Rs(ReedSolomonDecoder),
    High(HighRateDecoder<NoSimd>),
    Low(LowRateDecoder<NoSimd>),
}

struct Migrant {
    dec: MigrantDec,
    k: usize,
    originals: Vec<Vec<u8>>,
    recovery0: Vec<u8>,
    rounds: u32,
}

static P_MIGRANT_ROUNDS: AtomicU64 = AtomicU64::new(0);

impl Migrant {
    fn new(rng: &mut impl Rng) -> Migrant {
        let k = rng.gen_range(2..=4usize);
        let r = rng.gen_range(1..=4usize);
        let b = 64usize;
        let which = rng.gen_range(0..3u32);
        let seed: u64 = rng.gen();
        let originals: Vec<Vec<u8>> = (0..k)
            .map(|i| {
                let mut v = vec![0u8; b];
                simcore::prng::Prng::new(simcore::prng::mix(&[seed, i as u64])).fill(&mut v);
                v
            })
            .collect();
        let (dec, high) = match which {
            0 => (MigrantDec::Rs(ReedSolomonDecoder::new(k, r, b).unwrap_or_else(|e| violation(format!("ReedSolomonDecoder::new failed: {e:?}")))), envelope::default_is_high(k, r)),
            1 if <HighRateDecoder<NoSimd> as RateDecoder<NoSimd>>::supports(k, r) => (MigrantDec::High(HighRateDecoder::new(k, r, b, NoSimd::new(), None).unwrap_or_else(|e| violation(format!("HighRateDecoder::new failed: {e:?}")))), true),
            _ if <LowRateDecoder<NoSimd> as RateDecoder<NoSimd>>::supports(k, r) => (MigrantDec::Low(LowRateDecoder::new(k, r, b, NoSimd::new(), None).unwrap_or_else(|e| violation(format!("LowRateDecoder::new failed: {e:?}")))), false),
            _ => (MigrantDec::Rs(ReedSolomonDecoder::new(k, r, b).unwrap_or_else(|e| violation(format!("ReedSolomonDecoder::new failed: {e:?}")))), envelope::default_is_high(k, r)),
        };
        let recovery0 = Code::new(if high { Rate::High } else { Rate::Low }, k, r).encode(&originals).swap_remove(0);
        Migrant { dec, k, originals, recovery0, rounds: 0 }
    }

    /// One whole round on the calling thread: original `lost` is missing, recovery 0 stands in for it.
    fn round(&mut self, lost: usize) {
        let lost = lost % self.k;
        macro_rules! go {
            ($d:expr) => {{
                for (i, o) in self.originals.iter().enumerate() {
                    if i != lost {
                        $d.add_original_shard(i, o).unwrap_or_else(|e| violation(format!("migrant decoder: add_original_shard({i}) failed: {e:?}")));
                    }
                }
                $d.add_recovery_shard(0, &self.recovery0).unwrap_or_else(|e| violation(format!("migrant decoder: add_recovery_shard(0) failed: {e:?}")));
                let res = $d.decode().unwrap_or_else(|e| violation(format!("migrant decoder: decode failed: {e:?}")));
                let got: Vec<(usize, Vec<u8>)> = res.restored_original_iter().map(|(i, s)| (i, s.to_vec())).collect();
                if got.len() != 1 || got[0].0 != lost || got[0].1 != self.originals[lost] {
                    violation(format!("a decoder that moved between threads between rounds restored other data than sequential use (round {} of the object, original {lost} lost)", self.rounds + 1));
                }
            }};
        }
        match &mut self.dec {
            MigrantDec::Rs(d) => go!(d),
            MigrantDec::High(d) => go!(d),
            MigrantDec::Low(d) => go!(d),
        }
        self.rounds += 1;
        P_MIGRANT_ROUNDS.fetch_add(1, Ordering::Relaxed);
    }
}

/// The part of a decode round that may run on another thread: remaining adds + decode + check.
type Continuation = Box<dyn FnOnce(bool) + Send>;

fn me() -> shuttle::thread::ThreadId {
    shuttle::thread::current().id()
}

fn encode_round<E: Engine + 'static, T: RateEncoder<E>>(enc: &mut T, job: &Job, round: usize) -> Vec<Vec<u8>> {
    let originals = originals_of(job, round);
    for (i, o) in originals.iter().enumerate() {
        let res = match (&job.gate_wait, i, round) {
            (Some(gate), 0, 0) => {
                P_LAZY.fetch_add(1, Ordering::Relaxed);
                enc.add_original_shard(LazyShard { gate, data: o })
            }
            _ => enc.add_original_shard(o),
        };
        res.unwrap_or_else(|e| violation(format!("add_original_shard failed: {e:?} ({job_desc})", job_desc = desc(job))));
    }
    let result = enc.encode().unwrap_or_else(|e| violation(format!("encode failed: {e:?} ({})", desc(job))));
    let got: Vec<Vec<u8>> = result.recovery_iter().map(<[u8]>::to_vec).collect();
    let want = Code::new(if is_high(job) { Rate::High } else { Rate::Low }, job.k, job.r).encode(&originals);
    if got != want {
        violation(format!("recovery shards differ from the sequential reference R1 ({})", desc(job)));
    }
    P_ROUNDS.fetch_add(1, Ordering::Relaxed);
    got
}

fn desc(job: &Job) -> String {
    format!(
        "{}<{}> ({},{},{})",
        ["ReedSolomon", "DefaultRate", "HighRate", "LowRate", "one-shot"][job.layer],
        ENGINE_NAMES[job.engine],
        job.k,
        job.r,
        job.b
    )
}

/// Decode round split in two halves; the second half is returned as a continuation owning the decoder.
fn decode_round<E: Engine + Send + 'static, T: RateDecoder<E> + Send + 'static>(mut dec: T, job: Job, round: usize, recovery: Vec<Vec<u8>>) -> Continuation {
    let originals = originals_of(&job, round);
    // choose exactly k survivors
    let mut all: Vec<(bool, usize)> = (0..job.k).map(|i| (false, i)).chain((0..job.r).map(|j| (true, j))).collect();
    let mut p = simcore::prng::Prng::new(simcore::prng::mix(&[job.lose_seed, round as u64]));
    // lose at least one original so that the erasure locator (LOG_WALSH) is really needed
    all.swap_remove(p.below(job.k as u64) as usize);
    while all.len() > job.k {
        let at = p.below(all.len() as u64) as usize;
        all.swap_remove(at);
    }
    for i in (1..all.len()).rev() {
        all.swap(i, p.below(i as u64 + 1) as usize);
    }
    let half = all.len() / 2;
    let add = move |dec: &mut T, item: &(bool, usize), originals: &[Vec<u8>], recovery: &[Vec<u8>], job: &Job| {
        let res = if item.0 { dec.add_recovery_shard(item.1, &recovery[item.1]) } else { dec.add_original_shard(item.1, &originals[item.1]) };
        res.unwrap_or_else(|e| violation(format!("add of {:?} failed: {e:?} ({})", item, desc(job))));
    };
    for item in &all[..half] {
        add(&mut dec, item, &originals, &recovery, &job);
    }
    let origin = me();
    Box::new(move |_queued: bool| {
        let moved = me() != origin;
        for item in &all[half..] {
            add(&mut dec, item, &originals, &recovery, &job);
        }
        let given: BTreeSet<usize> = all.iter().filter(|x| !x.0).map(|x| x.1).collect();
        let result = dec.decode().unwrap_or_else(|e| violation(format!("decode failed: {e:?} ({})", desc(&job))));
        let restored: BTreeMap<usize, Vec<u8>> = result.restored_original_iter().map(|(i, s)| (i, s.to_vec())).collect();
        for i in 0..job.k {
            match (given.contains(&i), restored.get(&i)) {
                (true, None) => {}
                (false, Some(s)) if s == &originals[i] => {}
                (true, Some(_)) => violation(format!("given original {i} reported as restored ({})", desc(&job))),
                (false, None) => violation(format!("missing original {i} not restored ({})", desc(&job))),
                (false, Some(_)) => violation(format!("restored original {i} differs from the sequential result ({})", desc(&job))),
            }
        }
        P_DECODES.fetch_add(1, Ordering::Relaxed);
        if moved {
            P_FINISHED_BY_OTHER.fetch_add(1, Ordering::Relaxed);
        }
        drop(result);
        park(Box::new(dec), job.lose_seed >> 3);
    })
}

/// A stalled node: NoSimd whose polynomial evaluation (called in the middle of every decode) takes many
/// scheduling steps, so that in a crowd many threads are inside `decode()` at the same time.
struct SlowPoly(NoSimd);

impl Engine for SlowPoly {
    fn fft(&self, data: &mut reed_solomon_simd::engine::ShardsRefMut, pos: usize, size: usize, truncated_size: usize, skew_delta: usize) {
        self.0.fft(data, pos, size, truncated_size, skew_delta);
    }
    fn ifft(&self, data: &mut reed_solomon_simd::engine::ShardsRefMut, pos: usize, size: usize, truncated_size: usize, skew_delta: usize) {
        self.0.ifft(data, pos, size, truncated_size, skew_delta);
    }
    fn mul(&self, x: &mut [[u8; 64]], log_m: reed_solomon_simd::engine::GfElement) {
        self.0.mul(x, log_m);
    }
    fn eval_poly(erasures: &mut [reed_solomon_simd::engine::GfElement; reed_solomon_simd::engine::GF_ORDER], truncated_size: usize) {
        for _ in 0..48 {
            shuttle::thread::sleep(std::time::Duration::ZERO);
        }
        NoSimd::eval_poly(erasures, truncated_size);
    }
}

impl Mk for SlowPoly {
    fn mk() -> Self {
        SlowPoly(NoSimd::new())
    }
}

trait Mk: Engine + Send + Sized + 'static {
    fn mk() -> Self;
}
impl Mk for Naive {
    fn mk() -> Self {
        Naive::new()
    }
}
impl Mk for NoSimd {
    fn mk() -> Self {
        NoSimd::new()
    }
}
impl Mk for Ssse3 {
    fn mk() -> Self {
        Ssse3::new()
    }
}
impl Mk for Avx2 {
    fn mk() -> Self {
        Avx2::new()
    }
}
impl Mk for DefaultEngine {
    fn mk() -> Self {
        DefaultEngine::new()
    }
}

/// Runs the rounds of one job on this thread; decode halves that are to be handed over go to `tx`.
fn run_job_typed<E: Mk, Enc: RateEncoder<E> + 'static, Dec: RateDecoder<E> + Send + 'static>(job: &Job, tx: &shuttle::sync::mpsc::Sender<Continuation>) {
    let mut enc = Enc::new(job.k, job.r, job.b, E::mk(), None).unwrap_or_else(|e| violation(format!("encoder new failed: {e:?} ({})", desc(job))));
    for round in 0..job.rounds {
        let recovery = encode_round::<E, Enc>(&mut enc, job, round);
        let dec = Dec::new(job.k, job.r, job.b, E::mk(), None).unwrap_or_else(|e| violation(format!("decoder new failed: {e:?} ({})", desc(job))));
        let cont = decode_round::<E, Dec>(dec, job.clone(), round, recovery);
        if job.handover && round == 0 {
            P_HANDOVERS.fetch_add(1, Ordering::Relaxed);
            tx.send(cont).unwrap_or_else(|_| violation("hand-over channel closed".into()));
        } else {
            cont(false);
        }
    }
    park(Box::new(enc), job.lose_seed >> 7);
}

fn run_job(job: &Job, tx: &shuttle::sync::mpsc::Sender<Continuation>) {
    P_ENGINE[job.engine].fetch_add(1, Ordering::Relaxed);
    if job.direct_poly {
        // a foreign codec built on the public primitives: evaluates an erasure locator before any engine exists
        // on this thread (first touch of LOG_WALSH may race the other threads' first touches of the other tables)
        let mut erasures: Box<[u16; 65536]> = vec![0u16; 65536].into_boxed_slice().try_into().unwrap();
        erasures[1] = 1;
        erasures[5] = 1;
        reed_solomon_simd::engine::utils::eval_poly(&mut erasures, 8);
        // the locator vanishes (log 65535 = "zero") nowhere except by convention at the marked points; a cheap
        // sanity relation: evaluating twice from the same input gives the same answer once the tables exist
        let first = (erasures[0], erasures[2], erasures[3]);
        let mut again: Box<[u16; 65536]> = vec![0u16; 65536].into_boxed_slice().try_into().unwrap();
        again[1] = 1;
        again[5] = 1;
        reed_solomon_simd::engine::utils::eval_poly(&mut again, 8);
        if first != (again[0], again[2], again[3]) {
            violation(format!("direct eval_poly gives different answers before and after the tables settled ({})", desc(job)));
        }
        P_DIRECT_POLY.fetch_add(1, Ordering::Relaxed);
    }
    macro_rules! with_layer {
        ($E:ty) => {
            match job.layer {
                1 => run_job_typed::<$E, DefaultRateEncoder<$E>, DefaultRateDecoder<$E>>(job, tx),
                2 => run_job_typed::<$E, HighRateEncoder<$E>, HighRateDecoder<$E>>(job, tx),
                _ => run_job_typed::<$E, LowRateEncoder<$E>, LowRateDecoder<$E>>(job, tx),
            }
        };
    }
    if job.layer == 0 {
        run_rs(job, tx);
        return;
    }
    if job.layer == 4 {
        run_oneshot(job);
        return;
    }
    match job.engine {
        0 => with_layer!(Naive),
        1 => with_layer!(NoSimd),
        2 => with_layer!(Ssse3),
        3 => with_layer!(Avx2),
        5 => with_layer!(SlowPoly),
        _ => with_layer!(DefaultEngine),
    }
}

/// The one-shot functions (they may keep state of their own between calls).
fn run_oneshot(job: &Job) {
    for round in 0..job.rounds + 1 {
        let originals = originals_of(job, round);
        let recovery = reed_solomon_simd::encode(job.k, job.r, &originals).unwrap_or_else(|e| violation(format!("one-shot encode failed: {e:?} ({})", desc(job))));
        let want = Code::new(if is_high(job) { Rate::High } else { Rate::Low }, job.k, job.r).encode(&originals);
        if recovery != want {
            violation(format!("one-shot encode: recovery shards differ from the sequential reference R1 ({})", desc(job)));
        }
        P_ROUNDS.fetch_add(1, Ordering::Relaxed);
        // lose original 0, give recovery 0 instead
        let orig: Vec<(usize, &Vec<u8>)> = originals.iter().enumerate().skip(1).collect();
        let restored = reed_solomon_simd::decode(job.k, job.r, orig, [(0usize, &recovery[0])]).unwrap_or_else(|e| violation(format!("one-shot decode failed: {e:?} ({})", desc(job))));
        if restored.len() != 1 || restored.get(&0) != Some(&originals[0]) {
            violation(format!("one-shot decode: restored original differs from the sequential result ({})", desc(job)));
        }
        P_DECODES.fetch_add(1, Ordering::Relaxed);
    }
}

/// The ReedSolomonEncoder / ReedSolomonDecoder wrappers.
fn run_rs(job: &Job, tx: &shuttle::sync::mpsc::Sender<Continuation>) {
    let mut enc = ReedSolomonEncoder::new(job.k, job.r, job.b).unwrap_or_else(|e| violation(format!("ReedSolomonEncoder::new failed: {e:?}")));
    for round in 0..job.rounds {
        let originals = originals_of(job, round);
        for (i, o) in originals.iter().enumerate() {
            let res = match (&job.gate_wait, i, round) {
                (Some(gate), 0, 0) => {
                    P_LAZY.fetch_add(1, Ordering::Relaxed);
                    enc.add_original_shard(LazyShard { gate, data: o })
                }
                _ => enc.add_original_shard(o),
            };
            res.unwrap_or_else(|e| violation(format!("add_original_shard failed: {e:?}")));
        }
        let recovery: Vec<Vec<u8>> = {
            let result = enc.encode().unwrap_or_else(|e| violation(format!("encode failed: {e:?}")));
            result.recovery_iter().map(<[u8]>::to_vec).collect()
        };
        let want = Code::new(if is_high(job) { Rate::High } else { Rate::Low }, job.k, job.r).encode(&originals);
        if recovery != want {
            violation(format!("recovery shards differ from the sequential reference R1 ({})", desc(job)));
        }
        P_ROUNDS.fetch_add(1, Ordering::Relaxed);
        let mut dec = ReedSolomonDecoder::new(job.k, job.r, job.b).unwrap_or_else(|e| violation(format!("ReedSolomonDecoder::new failed: {e:?}")));
        // lose original 0, use recovery 0 instead
        let job2 = job.clone();
        let origin = me();
        let cont: Continuation = Box::new(move |_queued: bool| {
            let moved = me() != origin;
            for i in 1..job2.k {
                dec.add_original_shard(i, &originals[i]).unwrap_or_else(|e| violation(format!("add failed: {e:?}")));
            }
            dec.add_recovery_shard(0, &recovery[0]).unwrap_or_else(|e| violation(format!("add failed: {e:?}")));
            let result = dec.decode().unwrap_or_else(|e| violation(format!("decode failed: {e:?} ({})", desc(&job2))));
            let restored: Vec<(usize, Vec<u8>)> = result.restored_original_iter().map(|(i, s)| (i, s.to_vec())).collect();
            if restored.len() != 1 || restored[0].0 != 0 || restored[0].1 != originals[0] {
                violation(format!("restored original differs from the sequential result ({})", desc(&job2)));
            }
            P_DECODES.fetch_add(1, Ordering::Relaxed);
            if moved {
                P_FINISHED_BY_OTHER.fetch_add(1, Ordering::Relaxed);
            }
            drop(result);
            park(Box::new(dec), job2.lose_seed >> 3);
        });
        if job.handover && round == 0 {
            P_HANDOVERS.fetch_add(1, Ordering::Relaxed);
            tx.send(cont).unwrap_or_else(|_| violation("hand-over channel closed".into()));
        } else {
            cont(false);
        }
    }
    park(Box::new(enc), job.lose_seed >> 7);
}

fn scenario() {
    P_EXECUTIONS.fetch_add(1, Ordering::Relaxed);
    let mut rng = shuttle::rand::thread_rng();
    // mostly 2-4 threads; one execution in twelve is a crowd of 17-24 threads with tiny one-round jobs
    // (state shared by the crate may be sized for "a few" concurrent users)
    let crowd = rng.gen_range(0..12u32) == 0;
    let n = if crowd { rng.gen_range(17..=24usize) } else { rng.gen_range(2..=4usize) };
    let jobs: Vec<Job> = (0..n)
        .map(|_| {
            let mut j = draw_job(&mut rng);
            if crowd {
                j.rounds = 1;
                j.b = 2;
                // a crowd of stalled nodes: dedicated / default-rate codecs on the slow engine
                if j.layer == 0 || j.layer == 4 {
                    j.layer = 1 + (j.k + j.r) % 3;
                }
                j.engine = 5;
                j.handover = false;
            }
            j
        })
        .collect();
    let mut jobs = jobs;
    // one execution in five is a set of clones: every thread runs the same configuration on the same data with the
    // same loss pattern (replicas serving one hot object); state the crate shares between objects is then keyed
    // identically by all of them at the same moment
    if rng.gen_range(0..5u32) == 0 {
        let proto = jobs[0].clone();
        for j in jobs.iter_mut().skip(1) {
            let (rounds, handover) = (j.rounds, j.handover);
            *j = proto.clone();
            j.rounds = rounds.max(1);
            j.handover = handover && !crowd;
        }
        P_CLONES.fetch_add(1, Ordering::Relaxed);
    }
    if crowd {
        P_CROWDS.fetch_add(1, Ordering::Relaxed);
    } else if rng.gen_range(0..4u32) == 0 {
        // thread 0's first shard is produced by thread 1: caller code of one thread waits for another thread whose
        // own codec work must not be held up by that
        let gate = Arc::new(Gate { open: shuttle::sync::Mutex::new(false), cv: shuttle::sync::Condvar::new() });
        jobs[0].gate_wait = Some(gate.clone());
        jobs[1].gate_open = Some(gate);
    }
    let (tx, rx) = shuttle::sync::mpsc::channel::<Continuation>();
    let rx = Arc::new(shuttle::sync::Mutex::new(rx));
    // one execution in three has a migrant decoder in a pool shared by all threads
    let pool: Arc<shuttle::sync::Mutex<Vec<Migrant>>> = Arc::new(shuttle::sync::Mutex::new(Vec::new()));
    if !crowd && rng.gen_range(0..3u32) == 0 {
        pool.lock().unwrap().push(Migrant::new(&mut rng));
    }
    let mut handles = Vec::new();
    for job in jobs {
        let tx = tx.clone();
        let rx = rx.clone();
        let pool = pool.clone();
        let visits: Vec<usize> = (0..rng.gen_range(1..=3usize)).map(|_| rng.gen_range(0..2usize)).collect();
        handles.push(shuttle::thread::spawn(move || {
            // rounds on the migrant decoder before, between and after the thread's own job
            let visit = |lost: usize| {
                let taken = pool.lock().unwrap().pop();
                if let Some(mut m) = taken {
                    m.round(lost);
                    pool.lock().unwrap().push(m);
                }
                shuttle::thread::sleep(std::time::Duration::ZERO);
            };
            visit(visits[0]);
            PARKED_EARLY.with(|p| p.borrow_mut().clear());
            run_job(&job, &tx);
            if let Some(gate) = &job.gate_open {
                *gate.open.lock().unwrap() = true;
                gate.cv.notify_all();
            }
            for lost in &visits[1..] {
                visit(*lost);
            }
            drop(tx);
            // finish rounds other threads handed over (objects moved between threads mid-round)
            loop {
                let next = rx.lock().unwrap().try_recv();
                match next {
                    Ok(cont) => cont(true),
                    Err(_) => break,
                }
            }
        }));
    }
    drop(tx);
    for h in handles {
        h.join().unwrap_or_else(|_| violation("a thread panicked".into()));
    }
    // whatever is still queued (sent after every worker had left its receive loop) is finished here
    while let Ok(cont) = rx.lock().unwrap().try_recv() {
        cont(true);
    }
    // every execution builds the lazy tables again under its own schedule (hook H4) and the hook compares them
    // with the ones the sequential warm-up execution built
    let diverged = reed_solomon_simd::verif::take_table_divergence();
    if diverged > 0 {
        violation(format!("{diverged} lazily initialised table(s) built under this schedule differ from the table(s) built by sequential first use"));
    }
}

/// One single-threaded execution that touches every lazy table: the process-wide values every later
/// execution is compared with (and computes with) are the ones sequential first use builds.
fn warm_up() {
    use reed_solomon_simd::engine::tables;
    Runner::new(RandomScheduler::new_from_seed(0, 1), config(None)).run(|| {
        let n = tables::EXP_LOG.exp.len() + tables::LOG_WALSH.len() + tables::SKEW.len() + tables::MUL16.len() + tables::MUL128.len();
        assert!(n > 0);
        let _ = reed_solomon_simd::verif::take_table_divergence();
    });
}

// ======================================================================
// Scheduler wrapper: counts and hashes what the inner scheduler decides

#[derive(Default)]
struct Reach {
    executions: u64,
    steps: u64,
    context_switches: u64,
    preemptions: u64,
    distinct: BTreeSet<u64>,
}

struct Counting<S: Scheduler> {
    inner: S,
    reach: Arc<Mutex<Reach>>,
    hash: u64,
    steps: u64,
    started: bool,
}

impl<S: Scheduler> Counting<S> {
    fn flush(&mut self) {
        if self.started {
            let mut r = self.reach.lock().unwrap();
            r.executions += 1;
            r.steps += self.steps;
            r.distinct.insert(self.hash);
        }
        self.hash = 0xcbf2_9ce4_8422_2325;
        self.steps = 0;
    }
}

impl<S: Scheduler> Scheduler for Counting<S> {
    fn new_execution(&mut self) -> Option<Schedule> {
        self.flush();
        let r = self.inner.new_execution();
        self.started = r.is_some();
        r
    }
    fn next_task(&mut self, runnable: &[&Task], current: Option<TaskId>, is_yielding: bool) -> Option<TaskId> {
        let choice = self.inner.next_task(runnable, current, is_yielding);
        if let Some(c) = choice {
            let cid: usize = c.into();
            self.hash = (self.hash ^ cid as u64).wrapping_mul(0x0000_0100_0000_01B3);
            self.steps += 1;
            if let Some(cur) = current {
                if cur != c {
                    let mut r = self.reach.lock().unwrap();
                    r.context_switches += 1;
                    if runnable.iter().any(|t| t.id() == cur) && !is_yielding {
                        r.preemptions += 1;
                    }
                }
            }
        }
        choice
    }
    fn next_u64(&mut self) -> u64 {
        let v = self.inner.next_u64();
        self.hash = (self.hash ^ v).wrapping_mul(0x9E37_79B9_7F4A_7C15);
        v
    }
}

impl<S: Scheduler> Drop for Counting<S> {
    fn drop(&mut self) {
        self.flush();
    }
}

// ======================================================================
// Driver

fn args() -> (Vec<String>, BTreeMap<String, String>) {
    let mut pos = Vec::new();
    let mut map = BTreeMap::new();
    let mut it = std::env::args().skip(1);
    while let Some(a) = it.next() {
        if let Some(k) = a.strip_prefix("--") {
            map.insert(k.to_string(), it.next().unwrap_or_default());
        } else {
            pos.push(a);
        }
    }
    (pos, map)
}

fn config(dir: Option<&str>) -> Config {
    let mut c = Config::new();
    c.stack_size = 1 << 20; // decode keeps a 128 KiB erasure array on the stack
    c.max_steps = MaxSteps::FailAfter(2_000_000);
    c.silence_warnings = true;
    c.failure_persistence = match dir {
        Some(d) => FailurePersistence::File(Some(d.into())),
        None => FailurePersistence::None,
    };
    c
}

fn scheduler_name(w: usize) -> String {
    if w % 2 == 0 {
        "random".to_string()
    } else {
        format!("pct depth {}", 1 + (w / 2) % 4)
    }
}

fn panic_text(e: &Box<dyn std::any::Any + Send>) -> String {
    e.downcast_ref::<String>().cloned().or_else(|| e.downcast_ref::<&str>().map(|s| (*s).to_string())).unwrap_or_else(|| "panic".into())
}

/// One worker = one process = one single-threaded shuttle Runner: a pure function of (seed, index, iterations),
/// also for code under test that keeps process-global state across executions.
fn cmd_worker(map: &BTreeMap<String, String>) -> i32 {
    let master: u64 = map.get("seed").and_then(|s| s.parse().ok()).unwrap_or(1);
    let w: usize = map.get("index").and_then(|s| s.parse().ok()).unwrap_or(0);
    let per: usize = map.get("iterations").and_then(|s| s.parse().ok()).unwrap_or(100);
    let sched_dir = map.get("sched-dir").cloned();
    let _ = simcore::gf::field();
    // watchdog: a thread blocked outside shuttle's view (real lock held across a scheduling point, real
    // deadlock on std primitives) would hang forever; that is a harness error (exit 2), not a verdict
    std::thread::spawn(|| {
        let mut last = (P_EXECUTIONS.load(Ordering::Relaxed), Instant::now());
        loop {
            std::thread::sleep(std::time::Duration::from_millis(500));
            let now = P_EXECUTIONS.load(Ordering::Relaxed);
            if now != last.0 {
                last = (now, Instant::now());
            } else if last.1.elapsed().as_secs() >= 60 {
                eprintln!("harness error: no shuttle execution finished for 60 s after {now} executions - a thread is blocked outside shuttle's view (std lock held across a scheduling point, or a deadlock on std primitives); not decidable by the shuttle layer");
                std::process::exit(2);
            }
        }
    });
    warm_up();
    let reach = Arc::new(Mutex::new(Reach::default()));
    let seed = simcore::prng::mix(&[master, 0xC16, w as u64]);
    let r2 = reach.clone();
    let dir = sched_dir.clone();
    let res = std::panic::catch_unwind(move || {
        if w % 2 == 0 {
            let s = Counting { inner: RandomScheduler::new_from_seed(seed, per), reach: r2, hash: 0, steps: 0, started: false };
            Runner::new(s, config(dir.as_deref())).run(scenario);
        } else {
            let depth = 1 + (w / 2) % 4;
            let s = Counting { inner: PctScheduler::new_from_seed(seed, depth, per), reach: r2, hash: 0, steps: 0, started: false };
            Runner::new(s, config(dir.as_deref())).run(scenario);
        }
    });
    let r = reach.lock().unwrap();
    let mut engines = J::obj();
    for (i, n) in ENGINE_NAMES.iter().enumerate() {
        engines.set(n, J::u(P_ENGINE[i].load(Ordering::Relaxed)));
    }
    let mut out = J::obj()
        .with("worker", J::us(w))
        .with("scheduler", J::s(scheduler_name(w)))
        .with("scheduler_seed", J::u(seed))
        .with("executions", J::u(P_EXECUTIONS.load(Ordering::Relaxed)))
        .with("distinct", J::us(r.distinct.len()))
        .with("steps", J::u(r.steps))
        .with("context_switches", J::u(r.context_switches))
        .with("preemptions", J::u(r.preemptions))
        .with("encode_rounds", J::u(P_ROUNDS.load(Ordering::Relaxed)))
        .with("decode_rounds", J::u(P_DECODES.load(Ordering::Relaxed)))
        .with("handovers", J::u(P_HANDOVERS.load(Ordering::Relaxed)))
        .with("finished_by_other", J::u(P_FINISHED_BY_OTHER.load(Ordering::Relaxed)))
        .with("crowds", J::u(P_CROWDS.load(Ordering::Relaxed)))
        .with("clones", J::u(P_CLONES.load(Ordering::Relaxed)))
        .with("direct_poly", J::u(P_DIRECT_POLY.load(Ordering::Relaxed)))
        .with("parked", J::u(P_PARKED.load(Ordering::Relaxed)))
        .with("lazy", J::u(P_LAZY.load(Ordering::Relaxed)))
        .with("migrant_rounds", J::u(P_MIGRANT_ROUNDS.load(Ordering::Relaxed)))
        .with("engines", engines);
    let code = match res {
        Ok(()) => 0,
        Err(e) => {
            out.set("failure", J::s(panic_text(&e)));
            out.set("failed_at_execution", J::u(P_EXECUTIONS.load(Ordering::Relaxed)));
            1
        }
    };
    println!("TSIM-WORKER {}", out.to_string_compact());
    code
}

fn cmd_check(map: &BTreeMap<String, String>) -> i32 {
    let t0 = Instant::now();
    let tier = map.get("tier").map_or("quick", String::as_str).to_string();
    let master: u64 = map.get("seed").cloned().or_else(|| std::env::var("VERIF_SEED").ok()).and_then(|s| s.parse().ok()).unwrap_or(1);
    let workers: usize = map.get("workers").and_then(|s| s.parse().ok()).unwrap_or_else(|| std::thread::available_parallelism().map_or(4, |n| n.get()).min(16));
    let total: usize = map.get("iterations").and_then(|s| s.parse().ok()).unwrap_or(if tier == "thorough" { 400_000 } else { 12_000 });
    let replays = map.get("replays").cloned().unwrap_or_else(|| "/verif/replays".into());
    println!("tsim check property=C16 tier={tier} VERIF_SEED={master} workers={workers} (one process each) iterations={total}");
    simcore::gf::self_test().expect("R1 self-test");
    let per = total.div_ceil(workers);
    let exe = std::env::current_exe().unwrap();
    let base = format!("{replays}/C16-shuttle-{master}-{}", std::process::id());
    let mut children = Vec::new();
    for w in 0..workers {
        let dir = format!("{base}-w{w}");
        let _ = std::fs::create_dir_all(&dir);
        let child = std::process::Command::new(&exe)
            .args(["worker", "--seed", &master.to_string(), "--index", &w.to_string(), "--iterations", &per.to_string(), "--sched-dir", &dir])
            .stdout(std::process::Stdio::piped())
            .stderr(std::process::Stdio::piped())
            .spawn();
        match child {
            Ok(c) => children.push((w, dir, c)),
            Err(e) => {
                eprintln!("harness error: cannot spawn worker: {e}");
                return 2;
            }
        }
    }
    let mut summaries: Vec<(usize, String, J, i32, String)> = Vec::new();
    for (w, dir, c) in children {
        let out = match c.wait_with_output() {
            Ok(o) => o,
            Err(e) => {
                eprintln!("harness error: worker {w}: {e}");
                return 2;
            }
        };
        let code = out.status.code().unwrap_or(2);
        let stdout = String::from_utf8_lossy(&out.stdout).to_string();
        let stderr = String::from_utf8_lossy(&out.stderr).to_string();
        let line = stdout.lines().find_map(|l| l.strip_prefix("TSIM-WORKER ")).map(str::to_string);
        #[cfg(unix)]
        let signal = std::os::unix::process::ExitStatusExt::signal(&out.status);
        #[cfg(not(unix))]
        let signal: Option<i32> = None;
        if let (None, Some(sig @ (9 | 15 | 2 | 1))) = (&line, signal) {
            // killed from outside (out-of-memory killer, a supervisor's time limit): not a verdict
            eprintln!("harness error: worker {w} was killed from outside (signal {sig})");
            for w in 0..workers {
                let _ = std::fs::remove_dir_all(format!("{base}-w{w}"));
            }
            return 2;
        }
        if let (None, Some(sig)) = (&line, signal) {
            // the code under test took the whole process down (abort in a destructor, segfault): a violation
            // ("no schedule ... panics"), replayed by re-running this worker (a pure function of its arguments)
            let why = stderr.lines().rev().filter(|l| !l.trim().is_empty()).take(4).collect::<Vec<_>>().into_iter().rev().collect::<Vec<_>>().join(" | ");
            let j = J::obj()
                .with("worker", J::us(w))
                .with("scheduler", J::s(scheduler_name(w)))
                .with("scheduler_seed", J::u(simcore::prng::mix(&[master, 0xC16, w as u64])))
                .with("failure", J::s(format!("C16-VIOLATION: process-killed [signal {sig}] while the worker was running its executions: {why}")))
                .with("failed_at_execution", J::us(per));
            summaries.push((w, dir, j, 1, stderr));
            continue;
        }
        let Some(line) = line else {
            eprintln!("harness error: worker {w} exited with {code} without a summary\n{}", stderr.lines().rev().take(5).collect::<Vec<_>>().join("\n"));
            for w in 0..workers {
                let _ = std::fs::remove_dir_all(format!("{base}-w{w}"));
            }
            return 2;
        };
        let Ok(j) = json::parse(&line) else {
            eprintln!("harness error: worker {w} summary unparsable");
            return 2;
        };
        summaries.push((w, dir, j, code, stderr));
    }

    let get = |j: &J, k: &str| j.get(k).and_then(J::as_u64).unwrap_or(0);
    let mut exit = 0;
    let mut lines = Vec::new();
    let failing: Vec<&(usize, String, J, i32, String)> = summaries.iter().filter(|s| s.3 != 0).collect();
    for f in &failing {
        println!("violation: worker {} ({}, scheduler seed {}) at its execution {}: {}", f.0, f.2.get("scheduler").and_then(J::as_str).unwrap_or(""), get(&f.2, "scheduler_seed"), get(&f.2, "failed_at_execution"), f.2.get("failure").and_then(J::as_str).unwrap_or(""));
    }
    if let Some(f) = failing.iter().min_by_key(|f| get(&f.2, "failed_at_execution")) {
        // the failing execution's schedule, as persisted by shuttle
        let mut sched = String::new();
        if let Ok(rd) = std::fs::read_dir(&f.1) {
            for e in rd.flatten() {
                if let Ok(s) = std::fs::read_to_string(e.path()) {
                    sched = s;
                }
            }
        }
        let path = format!("{replays}/C16-shuttle-{master}-w{}.json", f.0);
        let body = J::obj()
            .with("format", J::s("tsim-replay-1"))
            .with("property", J::s("C16"))
            .with("simulator", J::s("C-shuttle"))
            .with("seed", J::u(master))
            .with("worker", J::us(f.0))
            .with("scheduler", J::s(f.2.get("scheduler").and_then(J::as_str).unwrap_or("")))
            .with("executions_until_failure", J::u(get(&f.2, "failed_at_execution")))
            .with("violation", J::s(f.2.get("failure").and_then(J::as_str).unwrap_or("")))
            .with("schedule_of_failing_execution", J::s(sched))
            .with("how_to_replay", J::s("the failing execution's schedule is replayed alone first; if the code under test keeps state across executions that is not enough, and the worker is re-run from its first execution (single-threaded process: a pure function of seed, worker and iteration count)"))
            .to_string_pretty();
        if let Err(e) = std::fs::write(&path, body) {
            eprintln!("harness error: cannot write {path}: {e}");
            return 2;
        }
        let st = std::process::Command::new(&exe).arg("replay").arg(&path).stdout(std::process::Stdio::null()).stderr(std::process::Stdio::null()).status();
        if matches!(st, Ok(s) if s.code() == Some(1)) {
            lines.push(format!("VIOLATION property=C16 replay={path}"));
            exit = 1;
        } else {
            eprintln!("harness error: the failing run does not reproduce in a fresh process ({st:?})");
            exit = 2;
        }
    }
    for w in 0..workers {
        let _ = std::fs::remove_dir_all(format!("{base}-w{w}"));
    }
    if exit == 2 {
        return 2;
    }

    let wall = t0.elapsed().as_secs_f64();
    let sum = |k: &str| summaries.iter().map(|s| get(&s.2, k)).sum::<u64>();
    let execs = sum("executions");
    let mut engines = J::obj();
    for n in ENGINE_NAMES {
        engines.set(n, J::u(summaries.iter().map(|s| s.2.get("engines").and_then(|e| e.get(n)).and_then(J::as_u64).unwrap_or(0)).sum()));
    }
    let coverage = J::obj()
        .with("evaluations", J::u(execs))
        .with("distinct_nontrivial", J::u(sum("distinct")))
        .with("rule", J::s("one evaluation = one shuttle execution (lazy tables initialised again in every execution and compared with the sequentially built ones; 2-4 threads or a crowd of 17-24; workload drawn from shuttle::rand); distinct = distinct hashes of the full decision sequence (every next_task choice and every random value) of an execution, counted in a set per worker process and summed over workers (workers use different scheduler seeds)"))
        .with("samples", J::Arr(vec![J::s(format!("{workers} worker processes; even workers: RandomScheduler, odd workers: PctScheduler depth 1..4; scheduler seed = mix(VERIF_SEED={master}, 0xC16, worker); {per} executions each")), J::s("every thread draws (engine in Naive/NoSimd/Ssse3/Avx2/DefaultEngine, layer in ReedSolomon/DefaultRate/HighRate/LowRate, k,r in 1..=4, shard bytes in {2,64,66}, 1-2 rounds, hand-over of the half-filled decoder with probability 1/3)")]))
        .with("schedulers", J::s("shuttle RandomScheduler and PctScheduler(depth 1-4), seeded"))
        .with("scheduling_steps", J::u(sum("steps")))
        .with("runs_per_hour", J::u(if wall > 0.0 { (execs as f64 / wall * 3600.0) as u64 } else { 0 }))
        .with("faults_fired", J::obj().with("F12.context_switches", J::u(sum("context_switches"))).with("F12.preemptions", J::u(sum("preemptions"))).with("object_handed_over_mid_round", J::u(sum("handovers"))))
        .with("probes", J::obj().with("encode_rounds", J::u(sum("encode_rounds"))).with("decode_rounds", J::u(sum("decode_rounds"))).with("round_finished_by_a_different_thread", J::u(sum("finished_by_other"))).with("executions_with_17_to_24_threads", J::u(sum("crowds"))).with("executions_whose_threads_all_run_the_same_configuration_data_and_loss_pattern", J::u(sum("clones"))).with("threads_starting_with_a_direct_eval_poly_call", J::u(sum("direct_poly"))).with("codecs_left_in_thread_local_storage_at_thread_exit", J::u(sum("parked"))).with("shards_whose_as_ref_waits_for_another_thread", J::u(sum("lazy"))).with("rounds_of_decoders_that_migrate_between_threads_between_rounds", J::u(sum("migrant_rounds"))).with("threads_per_engine", engines))
        .with("components", J::obj().with("real", J::Arr(vec![J::s("all codecs, engines and table initialisers of /repo, built through the shadow manifest with --cfg verif_shuttle")])).with("stub", J::Arr(vec![J::s("std::sync::LazyLock replaced by hook H4's shim (a shuttle Once that is fresh in every execution, so every execution runs the real initialisers again under its own schedule; the table built is compared byte for byte with the one a sequential warm-up execution built, which is also the one kept for the process); threads / mpsc / Mutex of the scenario are shuttle's")])))
        .with("exhaustive", J::Bool(false));
    let evidence = J::obj()
        .with("property_id", J::s("C16"))
        .with("tier", J::s(tier))
        .with("seed", J::u(master))
        .with("level", J::s("exploration"))
        .with("coverage", coverage)
        .with("assumptions", J::Arr(vec![J::s("shuttle sees only what goes through its own primitives and hooks H4/H5; shared state that bypasses them is the Miri layer's job"), J::s("R1 reference encoder trusted (self-tested)")]))
        .with("wall_s", J::Num(wall))
        .with("violations", J::us(failing.len()));
    if let Some(path) = map.get("evidence") {
        if let Err(e) = std::fs::write(path, evidence.to_string_pretty()) {
            eprintln!("harness error: cannot write {path}: {e}");
            return 2;
        }
    }
    println!("{execs} executions, {} distinct schedules, {} context switches, {} preemptions, {:.1}s, {} failing worker(s)", sum("distinct"), sum("context_switches"), sum("preemptions"), wall, failing.len());
    for l in lines {
        println!("{l}");
    }
    exit
}

fn cmd_replay(path: &str) -> i32 {
    let Ok(text) = std::fs::read_to_string(path) else {
        eprintln!("harness error: cannot read {path}");
        return 2;
    };
    let Ok(j) = json::parse(&text) else {
        eprintln!("harness error: cannot parse {path}");
        return 2;
    };
    let sched = j.get("schedule_of_failing_execution").and_then(J::as_str).unwrap_or("").to_string();
    let _ = simcore::gf::field();
    warm_up();
    // 1. the failing execution alone
    if !sched.is_empty() {
        let res = std::panic::catch_unwind(move || {
            let s = shuttle::scheduler::ReplayScheduler::new_from_encoded(&sched);
            Runner::new(s, config(None)).run(scenario);
        });
        if let Err(e) = res {
            let msg = panic_text(&e);
            // the replay scheduler's own complaints mean that the recorded schedule does not fit the
            // program as it runs now: nothing was reproduced by this step
            let mismatch = ["schedule ended early", "expected context switch", "expected random choice", "scheduled task is not runnable", "invalid schedule"];
            if !mismatch.iter().any(|m| msg.contains(m)) {
                println!("reproduced by replaying the failing execution's schedule: {msg}");
                println!("VIOLATION property=C16 replay={path}");
                return 1;
            }
            println!("the failing execution's schedule alone does not fit ({msg}); re-running the worker from its first execution");
        } else {
            println!("the failing execution's schedule alone passes; re-running the worker from its first execution");
        }
    }
    // 2. the whole worker, deterministically, in a fresh single-threaded process
    let (Some(seed), Some(w), Some(n)) = (j.get("seed").and_then(J::as_u64), j.get("worker").and_then(J::as_u64), j.get("executions_until_failure").and_then(J::as_u64)) else {
        eprintln!("harness error: incomplete replay file {path}");
        return 2;
    };
    let exe = std::env::current_exe().unwrap();
    let out = std::process::Command::new(exe).args(["worker", "--seed", &seed.to_string(), "--index", &w.to_string(), "--iterations", &n.to_string()]).output();
    match out {
        Ok(o) if o.status.code() == Some(1) => {
            let stdout = String::from_utf8_lossy(&o.stdout);
            let line = stdout.lines().find_map(|l| l.strip_prefix("TSIM-WORKER ")).unwrap_or("");
            let msg = json::parse(line).ok().and_then(|j| j.get("failure").and_then(J::as_str).map(str::to_string)).unwrap_or_default();
            println!("reproduced by re-running worker {w} for {n} executions: {msg}");
            println!("VIOLATION property=C16 replay={path}");
            1
        }
        Ok(o) if o.status.code() == Some(0) => {
            println!("no violation on this tree");
            0
        }
        #[cfg(unix)]
        Ok(o) if matches!(std::os::unix::process::ExitStatusExt::signal(&o.status), Some(s) if ![9, 15, 2, 1].contains(&s)) => {
            println!("reproduced by re-running worker {w} for {n} executions: process killed by signal {:?}", std::os::unix::process::ExitStatusExt::signal(&o.status));
            println!("VIOLATION property=C16 replay={path}");
            1
        }
        other => {
            eprintln!("harness error: worker re-run failed: {other:?}");
            2
        }
    }
}

fn main() {
    let (pos, map) = args();
    let code = match pos.first().map(String::as_str) {
        Some("check") => cmd_check(&map),
        Some("worker") => cmd_worker(&map),
        Some("replay") => pos.get(1).map_or(2, |p| cmd_replay(p)),
        _ => {
            eprintln!("usage: tsim check --tier quick|thorough [--seed N] [--evidence file] | tsim replay <file>");
            2
        }
    };
    std::process::exit(code);
}
