//! `Lockstep`: an `Engine` that runs every primitive call the codec issues on all engines
//! (NoSimd, Naive, Ssse3, Avx2, NeonEmu), each on a private copy, compares all copies byte for byte
//! including every shard outside the transformed range, and hands back the first.

use std::cell::RefCell;
use std::collections::BTreeSet;

use reed_solomon_simd::engine::{
    Avx2, DefaultEngine, Engine, GfElement, Naive, NoSimd, ShardsRefMut, Ssse3, GF_ORDER,
};

use crate::neon::NeonEmu;

pub const NAMES: [&str; 6] = ["NoSimd", "Naive", "Ssse3", "Avx2", "NeonEmu", "DefaultEngine"];

#[derive(Default)]
pub struct LockstepLog {
    pub violations: Vec<String>,
    pub calls: [u64; 4],
    /// engines differing only where the contract declares the output garbage (informational)
    pub garbage_region_differences: u64,
    pub ifft_with_nonzero_tail: u64,
    pub perturbed_calls: u64,
    pub far_position_calls: u64,
    /// distinct (primitive, log2 size, truncated class, skew class, blocks)
    pub tuples: BTreeSet<(u8, u8, u8, u8, u8)>,
}

thread_local! {
    static LOG: RefCell<LockstepLog> = RefCell::new(LockstepLog::default());
    /// (seed, call counter) of the perturbed shadow calls; seed 0 = off
    static PERTURB: std::cell::Cell<(u64, u64)> = const { std::cell::Cell::new((0, 0)) };
}

/// Arms the perturbed shadow calls for this run: next to every primitive call the codec issues, the
/// lock-step engine sometimes issues the same primitive with *other arguments the Engine contract
/// permits* (other skew offsets, truncated sizes, positions, multipliers) on private copies - a
/// foreign caller of the public Engine API - and compares the engines there as well.
pub fn set_perturb(seed: u64) {
    PERTURB.with(|p| p.set((seed, 0)));
}

/// A copy of `blocks` placed at a byte offset 1..=15 from an allocation boundary: `[[u8; 64]]` has alignment 1,
/// so callers of the public Engine API may hand over blocks at any address.
pub struct Misaligned {
    raw: Vec<u8>,
    off: usize,
    n: usize,
}

impl Misaligned {
    pub fn new(blocks: &[[u8; 64]], off: usize) -> Self {
        let off = 1 + off % 15;
        let mut raw = vec![0u8; blocks.len() * 64 + 16];
        raw[off..off + blocks.len() * 64].copy_from_slice(blocks.as_flattened());
        Self { raw, off, n: blocks.len() }
    }
    pub fn blocks_mut(&mut self) -> &mut [[u8; 64]] {
        let (chunks, _) = self.raw[self.off..self.off + self.n * 64].as_chunks_mut::<64>();
        chunks
    }
    pub fn blocks(&self) -> &[[u8; 64]] {
        let (chunks, _) = self.raw[self.off..self.off + self.n * 64].as_chunks::<64>();
        chunks
    }
}

fn perturb_draw() -> Option<simcore::prng::Prng> {
    PERTURB.with(|p| {
        let (seed, n) = p.get();
        if seed == 0 {
            return None;
        }
        p.set((seed, n + 1));
        let mut prng = simcore::prng::Prng::new(simcore::prng::mix(&[seed, n]));
        if prng.below(3) == 0 {
            Some(prng)
        } else {
            None
        }
    })
}

/// State of the perturbed shadow calls on this thread (handed over when a history continues on another thread).
pub fn perturb_state() -> (u64, u64) {
    PERTURB.with(std::cell::Cell::get)
}

pub fn set_perturb_state(state: (u64, u64)) {
    PERTURB.with(|p| p.set(state));
}

/// Installs a log taken on another thread (a history that continues on this one).
pub fn set_log(log: LockstepLog) {
    LOG.with(|l| *l.borrow_mut() = log);
}

pub fn take_violations() -> Vec<String> {
    LOG.with(|l| std::mem::take(&mut l.borrow_mut().violations))
}

pub fn take_log() -> LockstepLog {
    LOG.with(|l| std::mem::take(&mut *l.borrow_mut()))
}

pub struct Lockstep {
    nosimd: NoSimd,
    naive: Naive,
    ssse3: Ssse3,
    avx2: Avx2,
    neon: NeonEmu,
    /// the dispatcher itself (whatever it selects under the CPU mask of the run) is an engine like the others
    default: DefaultEngine,
}

impl Lockstep {
    pub fn new() -> Self {
        Self {
            nosimd: NoSimd::new(),
            naive: Naive::new(),
            ssse3: Ssse3::new(),
            avx2: Avx2::new(),
            neon: NeonEmu::new(),
            default: DefaultEngine::new(),
        }
    }

    fn engines(&self) -> [&dyn Engine; 6] {
        [&self.nosimd, &self.naive, &self.ssse3, &self.avx2, &self.neon, &self.default]
    }

    fn transform(
        &self,
        prim: u8,
        data: &mut ShardsRefMut,
        pos: usize,
        size: usize,
        truncated_size: usize,
        skew_delta: usize,
    ) {
        let count = data.len();
        let len64 = if count > 0 { data[0].len() } else { 0 };
        let mut snapshot: Vec<[u8; 64]> = Vec::with_capacity(count * len64);
        for i in 0..count {
            snapshot.extend_from_slice(&data[i]);
        }
        let name = if prim == 0 { "fft" } else { "ifft" };

        let mut results: Vec<Vec<[u8; 64]>> = Vec::with_capacity(6);
        for engine in self.engines() {
            let mut copy = snapshot.clone();
            {
                let mut view = ShardsRefMut::new(count, len64, &mut copy);
                if prim == 0 {
                    engine.fft(&mut view, pos, size, truncated_size, skew_delta);
                } else {
                    engine.ifft(&mut view, pos, size, truncated_size, skew_delta);
                }
            }
            results.push(copy);
        }

        LOG.with(|l| {
            let mut l = l.borrow_mut();
            l.calls[prim as usize] += 1;
            let tclass = if truncated_size == size {
                0
            } else if truncated_size == 0 {
                1
            } else if truncated_size * 2 <= size {
                2
            } else {
                3
            };
            let sclass = if skew_delta == 0 {
                0
            } else if skew_delta == pos + size {
                1
            } else {
                2
            };
            l.tuples.insert((
                prim,
                size.trailing_zeros() as u8,
                tclass,
                sclass,
                len64.min(255) as u8,
            ));
            // Where the contract defines the result (property C15's wording): the first truncated_size
            // outputs of fft for any input; all outputs of ifft whenever the inputs beyond truncated_size
            // are zero (what an ifft does with a non-zero tail is undefined, and no codec ever asks for it).
            // Engines are compared exactly there; the rest of the range is declared garbage by the contract.
            let t_end = pos + truncated_size.min(size);
            let tail_zero = snapshot[t_end * len64..(pos + size) * len64]
                .iter()
                .all(|c| c.iter().all(|b| *b == 0));
            let defined_end = if prim == 0 {
                t_end
            } else if tail_zero {
                pos + size
            } else {
                l.ifft_with_nonzero_tail += 1;
                pos
            };
            for (n, res) in results.iter().enumerate().skip(1) {
                let (a, b) = (&res[pos * len64..defined_end * len64], &results[0][pos * len64..defined_end * len64]);
                if a != b {
                    let first = a.iter().zip(b.iter()).position(|(x, y)| x != y).unwrap_or(0);
                    l.violations.push(format!(
                        "{name}(pos={pos}, size={size}, truncated={truncated_size}, skew_delta={skew_delta}, shards={count}, blocks={len64}): {} differs from {} first at shard {} block {} (inside the contract-defined output range {pos}..{defined_end})",
                        NAMES[n], NAMES[0], pos + first / len64.max(1), first % len64.max(1)
                    ));
                } else if res[defined_end * len64..(pos + size) * len64] != results[0][defined_end * len64..(pos + size) * len64] {
                    l.garbage_region_differences += 1;
                }
            }
            for (n, res) in results.iter().enumerate() {
                for i in (0..count).filter(|i| *i < pos || *i >= pos + size) {
                    if res[i * len64..(i + 1) * len64] != snapshot[i * len64..(i + 1) * len64] {
                        l.violations.push(format!(
                            "{name}(pos={pos}, size={size}, truncated={truncated_size}, skew_delta={skew_delta}, shards={count}): {} changed shard {i} outside the transformed range",
                            NAMES[n]
                        ));
                        break;
                    }
                }
            }
        });

        for i in 0..count {
            data[i].copy_from_slice(&results[0][i * len64..(i + 1) * len64]);
        }

        // perturbed shadow call: other contract-permitted arguments on the same data
        if let Some(mut p) = perturb_draw() {
            if size >= 2 && count >= size {
                let size2 = 1usize << p.below(u64::from(size.trailing_zeros()) + 1);
                let pos2 = p.below((count - size2) as u64 + 1) as usize;
                let trunc2 = match p.below(4) {
                    0 => size2,
                    1 => 1,
                    _ => 1 + p.below(size2 as u64) as usize,
                };
                // the skew table has 65535 entries and the highest index used is skew_delta + size - 2
                let max_skew = 65536 - size2;
                let skew2 = match p.below(6) {
                    0 => 0,
                    1 => pos2 + size2,
                    2 => 1 + p.below(7) as usize,
                    3 => (1usize << p.below(16)).min(max_skew),
                    4 => max_skew - p.below(3).min(max_skew as u64) as usize,
                    _ => p.below(max_skew as u64 + 1) as usize,
                };
                self.shadow_transform(prim, &snapshot, count, len64, pos2, size2, trunc2, skew2);
                // now and then the same window sits far out in a shard array longer than the field has elements
                // (`pos` is an index into the caller's array, the contract puts no bound on it; only skew_delta
                // refers to the field): one block per shard, window ending beyond shard 65536
                if p.below(48) == 0 {
                    let pad = p.below(64) as usize;
                    let count_far = 65536 + size2 + pad;
                    let pos_far = count_far - size2 - p.below(pad as u64 + 1) as usize;
                    let mut far: Vec<[u8; 64]> = vec![[0x5A; 64]; count_far];
                    for i in 0..size2 {
                        far[pos_far + i] = snapshot[(pos2 + i) * len64];
                    }
                    LOG.with(|l| l.borrow_mut().far_position_calls += 1);
                    self.shadow_transform(prim, &far, count_far, 1, pos_far, size2, trunc2, skew2);
                }
            }
        }
    }

    #[allow(clippy::too_many_arguments)]
    fn shadow_transform(&self, prim: u8, snapshot: &[[u8; 64]], count: usize, len64: usize, pos: usize, size: usize, truncated_size: usize, skew_delta: usize) {
        let name = if prim == 0 { "fft" } else { "ifft" };
        let mut input = snapshot.to_vec();
        if prim == 1 {
            // an ifft is only defined if the inputs beyond truncated_size are zero
            for c in &mut input[(pos + truncated_size) * len64..(pos + size) * len64] {
                *c = [0; 64];
            }
        }
        let mut results: Vec<Vec<[u8; 64]>> = Vec::with_capacity(6);
        // every other shadow call hands the blocks over at an address that is not 16-byte aligned
        let misalign = (skew_delta + pos + truncated_size) % 2 == 1;
        for engine in self.engines() {
            if misalign {
                let mut m = Misaligned::new(&input, pos + size + skew_delta);
                {
                    let mut view = ShardsRefMut::new(count, len64, m.blocks_mut());
                    if prim == 0 {
                        engine.fft(&mut view, pos, size, truncated_size, skew_delta);
                    } else {
                        engine.ifft(&mut view, pos, size, truncated_size, skew_delta);
                    }
                }
                results.push(m.blocks().to_vec());
                continue;
            }
            let mut copy = input.clone();
            {
                let mut view = ShardsRefMut::new(count, len64, &mut copy);
                if prim == 0 {
                    engine.fft(&mut view, pos, size, truncated_size, skew_delta);
                } else {
                    engine.ifft(&mut view, pos, size, truncated_size, skew_delta);
                }
            }
            results.push(copy);
        }
        let defined_end = if prim == 0 { pos + truncated_size } else { pos + size };
        LOG.with(|l| {
            let mut l = l.borrow_mut();
            l.perturbed_calls += 1;
            let sclass = if skew_delta == 0 { 0 } else if skew_delta == pos + size { 1 } else { 2 };
            l.tuples.insert((prim + 4, size.trailing_zeros() as u8, if truncated_size == size { 0 } else { 3 }, sclass, len64.min(255) as u8));
            for (n, res) in results.iter().enumerate().skip(1) {
                if res[pos * len64..defined_end * len64] != results[0][pos * len64..defined_end * len64] {
                    l.violations.push(format!(
                        "{name}(pos={pos}, size={size}, truncated={truncated_size}, skew_delta={skew_delta}, shards={count}, blocks={len64}) [perturbed shadow call: arguments the Engine contract permits but no codec passes]: {} differs from {} inside the contract-defined output range",
                        NAMES[n], NAMES[0]
                    ));
                }
            }
            for (n, res) in results.iter().enumerate() {
                for i in (0..count).filter(|i| *i < pos || *i >= pos + size) {
                    if res[i * len64..(i + 1) * len64] != input[i * len64..(i + 1) * len64] {
                        l.violations.push(format!(
                            "{name}(pos={pos}, size={size}, truncated={truncated_size}, skew_delta={skew_delta}, shards={count}) [perturbed shadow call]: {} changed shard {i} outside the transformed range",
                            NAMES[n]
                        ));
                        break;
                    }
                }
            }
        });
    }
}

impl Engine for Lockstep {
    fn fft(&self, data: &mut ShardsRefMut, pos: usize, size: usize, truncated_size: usize, skew_delta: usize) {
        self.transform(0, data, pos, size, truncated_size, skew_delta);
    }

    fn ifft(&self, data: &mut ShardsRefMut, pos: usize, size: usize, truncated_size: usize, skew_delta: usize) {
        self.transform(1, data, pos, size, truncated_size, skew_delta);
    }

    fn mul(&self, x: &mut [[u8; 64]], log_m: GfElement) {
        let snapshot = x.to_vec();
        let mut results: Vec<Vec<[u8; 64]>> = Vec::with_capacity(6);
        for engine in self.engines() {
            let mut copy = snapshot.clone();
            engine.mul(&mut copy, log_m);
            results.push(copy);
        }
        LOG.with(|l| {
            let mut l = l.borrow_mut();
            l.calls[2] += 1;
            let mclass = match log_m {
                0 => 0,
                65535 => 1,
                _ => 2,
            };
            l.tuples.insert((2, 0, mclass, 0, x.len().min(255) as u8));
            for (n, res) in results.iter().enumerate().skip(1) {
                if res != &results[0] {
                    l.violations.push(format!(
                        "mul(log_m={log_m}, blocks={}): {} differs from {}",
                        x.len(),
                        NAMES[n],
                        NAMES[0]
                    ));
                }
            }
        });
        x.copy_from_slice(&results[0]);
        if let Some(mut p) = perturb_draw() {
            let log2 = match p.below(4) {
                0 => 0,
                1 => 65535,
                2 => 65534,
                _ => p.below(65536) as GfElement,
            };
            let mut res2: Vec<Vec<[u8; 64]>> = Vec::with_capacity(12);
            for engine in self.engines() {
                let mut copy = snapshot.clone();
                engine.mul(&mut copy, log2);
                res2.push(copy);
            }
            // the same product on blocks at an odd address must be the same bytes
            let off = p.below(15) as usize;
            for engine in self.engines() {
                let mut m = Misaligned::new(&snapshot, off);
                engine.mul(m.blocks_mut(), log2);
                res2.push(m.blocks().to_vec());
            }
            LOG.with(|l| {
                let mut l = l.borrow_mut();
                l.perturbed_calls += 1;
                for (n, res) in res2.iter().enumerate().skip(1) {
                    if res != &res2[0] {
                        l.violations.push(format!("mul(log_m={log2}, blocks={}) [perturbed shadow call{}]: {} differs from {}", x.len(), if n >= 6 { ", blocks at an address that is not 16-byte aligned" } else { "" }, NAMES[n % 6], NAMES[0]));
                    }
                }
            });
        }
    }

    fn eval_poly(erasures: &mut [GfElement; GF_ORDER], truncated_size: usize) {
        fn boxed(src: &[GfElement; GF_ORDER]) -> Box<[GfElement; GF_ORDER]> {
            src.to_vec().into_boxed_slice().try_into().unwrap()
        }
        let mut results: Vec<Box<[GfElement; GF_ORDER]>> = Vec::with_capacity(6);
        let mut c = boxed(erasures);
        NoSimd::eval_poly(&mut c, truncated_size);
        results.push(c);
        let mut c = boxed(erasures);
        Naive::eval_poly(&mut c, truncated_size);
        results.push(c);
        let mut c = boxed(erasures);
        Ssse3::eval_poly(&mut c, truncated_size);
        results.push(c);
        let mut c = boxed(erasures);
        Avx2::eval_poly(&mut c, truncated_size);
        results.push(c);
        let mut c = boxed(erasures);
        NeonEmu::eval_poly(&mut c, truncated_size);
        results.push(c);
        let mut c = boxed(erasures);
        DefaultEngine::eval_poly(&mut c, truncated_size);
        results.push(c);
        LOG.with(|l| {
            let mut l = l.borrow_mut();
            l.calls[3] += 1;
            l.tuples.insert((
                3,
                0,
                if truncated_size == GF_ORDER { 0 } else { 3 },
                0,
                0,
            ));
            for (n, res) in results.iter().enumerate().skip(1) {
                if res[..] != results[0][..] {
                    l.violations.push(format!(
                        "eval_poly(truncated={truncated_size}): {} differs from {}",
                        NAMES[n], NAMES[0]
                    ));
                }
            }
        });
        erasures.copy_from_slice(&results[0][..]);
        // perturbed shadow call: another erasure pattern and another truncated size (tiny ones included)
        if let Some(mut p) = perturb_draw() {
            const T: [usize; 15] = [1, 2, 3, 4, 5, 7, 8, 9, 16, 100, 1000, 4096, 32768, 65535, 65536];
            let t = T[p.below(T.len() as u64) as usize];
            let mut input: Box<[GfElement; GF_ORDER]> = vec![0; GF_ORDER].into_boxed_slice().try_into().unwrap();
            let density = 1 + p.below(4);
            for e in input.iter_mut().take(t) {
                *e = GfElement::from(p.below(4) < density);
            }
            input[0] |= GfElement::from(t <= 2);
            let mut res2: Vec<Box<[GfElement; GF_ORDER]>> = Vec::with_capacity(6);
            macro_rules! run {
                ($E:ty) => {{
                    let mut c = boxed(&input);
                    <$E>::eval_poly(&mut c, t);
                    res2.push(c);
                }};
            }
            run!(NoSimd);
            run!(Naive);
            run!(Ssse3);
            run!(Avx2);
            run!(NeonEmu);
            run!(DefaultEngine);
            LOG.with(|l| {
                let mut l = l.borrow_mut();
                l.perturbed_calls += 1;
                for (n, res) in res2.iter().enumerate().skip(1) {
                    if res[..] != res2[0][..] {
                        l.violations.push(format!("eval_poly(truncated={t}) [perturbed shadow call]: {} differs from {}", NAMES[n], NAMES[0]));
                    }
                }
            });
        }
    }
}
