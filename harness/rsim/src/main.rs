//! rsim - deterministic simulators A (stripe store), B (API histories), D (CPU mask).
//!
//! One process = many runs; a run is a pure function of (simulator, seed) through one `Chooser`.

#![allow(unused_assignments, dead_code)]

mod codec;
mod common;
mod lockstep;
mod neon;
mod oneshot;
mod oracles;
mod sima;
mod simb;
mod simd;
mod jumbo;

use std::collections::BTreeMap;
use std::sync::atomic::{AtomicBool, AtomicUsize, Ordering};
use std::sync::Mutex;
use std::time::{Duration, Instant};

use simcore::countalloc::CountingAlloc;
use simcore::json::{self, J};
use simcore::prng::mix;
use simcore::{shrink, Chooser};

use common::{Ctx, Stats, Violation};

#[global_allocator]
static ALLOC: CountingAlloc = CountingAlloc;

pub const BUILD_PROFILE: &str = if cfg!(debug_assertions) { "checked" } else { "release" };

// ======================================================================
// Simulators and plans

#[derive(Clone, Copy, Debug, PartialEq, Eq)]
pub enum Sim {
    BEnc,
    BDec,
    BOneshot,
    AStore,
    ACorner,
    DCpu,
    Jumbo,
}

impl Sim {
    fn name(self) -> &'static str {
        match self {
            Sim::BEnc => "B-encoder-histories",
            Sim::BDec => "B-decoder-histories",
            Sim::BOneshot => "B-oneshot-calls",
            Sim::AStore => "A-stripe-store",
            Sim::ACorner => "A-corner-stripes",
            Sim::DCpu => "D-cpu-mask",
            Sim::Jumbo => "J-jumbo-shards",
        }
    }
    fn from_name(s: &str) -> Option<Sim> {
        [Sim::BEnc, Sim::BDec, Sim::BOneshot, Sim::AStore, Sim::ACorner, Sim::DCpu, Sim::Jumbo]
            .into_iter()
            .find(|x| x.name() == s)
    }
    fn id(self) -> u64 {
        self as u64 + 1
    }
    fn run(self, ch: &mut Chooser, ctx: &mut Ctx) {
        match self {
            Sim::BEnc => simb::run_encoder(ch, ctx),
            Sim::BDec => simb::run_decoder(ch, ctx),
            Sim::BOneshot => oneshot::run_oneshot(ch, ctx),
            Sim::AStore => sima::run_store(ch, ctx),
            Sim::ACorner => sima::run_corner(ch, ctx),
            Sim::DCpu => simd::run_cpu(ch, ctx),
            Sim::Jumbo => jumbo::run_jumbo(ch, ctx),
        }
    }
}

/// (simulator, runs in quick tier, runs in thorough tier) per property, release profile.
fn plan(prop: &str) -> Vec<(Sim, usize, usize)> {
    use Sim::*;
    match prop {
        "C01" => vec![(AStore, 6000, 400_000), (BDec, 12_000, 600_000), (ACorner, 12, 400), (BOneshot, 3000, 100_000)],
        "C02" => vec![(BEnc, 16_000, 800_000), (AStore, 4000, 300_000), (BDec, 3000, 100_000), (ACorner, 8, 300)],
        "C03" => vec![(AStore, 6000, 400_000), (BEnc, 8000, 400_000), (BDec, 8000, 400_000), (ACorner, 24, 600)],
        "C04" => vec![(Jumbo, 0, 3), (BEnc, 14_000, 700_000), (BDec, 10_000, 500_000), (AStore, 3000, 200_000)],
        "C05" => vec![(BEnc, 14_000, 800_000), (BDec, 12_000, 700_000), (AStore, 3000, 200_000)],
        "C06" => vec![(BEnc, 12_000, 600_000), (BDec, 12_000, 600_000), (BOneshot, 10_000, 500_000), (AStore, 3000, 200_000), (ACorner, 24, 600)],
        "C07" => vec![(BEnc, 14_000, 700_000), (BDec, 14_000, 700_000), (AStore, 3000, 200_000)],
        "C08" => vec![(BEnc, 10_000, 500_000), (BDec, 10_000, 500_000), (BOneshot, 4000, 200_000), (ACorner, 16, 600)],
        "C09" => vec![(BEnc, 14_000, 700_000), (BDec, 10_000, 500_000), (BOneshot, 6000, 300_000), (AStore, 4000, 300_000)],
        "C10" => vec![(BOneshot, 20_000, 1_000_000), (BEnc, 5000, 200_000), (BDec, 6000, 300_000), (AStore, 4000, 300_000)],
        "C11" => vec![(AStore, 8000, 500_000), (BDec, 12_000, 600_000)],
        "C12" => vec![(BEnc, 12_000, 600_000), (BDec, 14_000, 700_000), (AStore, 3000, 200_000), (ACorner, 24, 600)],
        "C14" => vec![(DCpu, 3000, 150_000), (AStore, 3000, 200_000)],
        "C17" => vec![(BEnc, 14_000, 700_000), (BDec, 14_000, 700_000)],
        _ => vec![],
    }
}

/// The `checked` profile (overflow checks + debug assertions) runs a reduced plan.
fn scale_for_profile(n: usize) -> usize {
    if n == 0 {
        0
    } else if BUILD_PROFILE == "checked" {
        (n / 3).max(4)
    } else {
        n
    }
}

// ======================================================================
// One run

pub struct RunResult {
    pub sim: Sim,
    pub index: usize,
    pub seed: u64,
    pub hash: String,
    pub decisions: Vec<u64>,
    pub violation: Option<Violation>,
    pub stats: Stats,
    pub events: Vec<String>,
}

fn run_one(sim: Sim, prop: &str, index: usize, seed: u64, replay: Option<&[u64]>, trace: bool) -> RunResult {
    let mut ch = match replay {
        Some(v) => Chooser::replay(v.to_vec()),
        None => Chooser::record(seed),
    };
    let mut ctx = Ctx::new(prop, trace);
    ctx.hash.feed_u64(seed);
    lockstep::set_perturb(mix(&[seed, 0x10c5]) | 1);
    codec::reset_mk_counter();
    sim.run(&mut ch, &mut ctx);
    lockstep::set_perturb(0);
    reed_solomon_simd::verif::set_poison(0);
    reed_solomon_simd::verif::set_cpu_mask(u32::MAX);
    let _ = lockstep::take_log();
    ctx.count("runs");
    ctx.count_n("decisions", ch.trace.len() as u64);
    RunResult {
        sim,
        index,
        seed,
        hash: ctx.hash.hex(),
        decisions: ch.values(),
        violation: ctx.violation.take(),
        stats: std::mem::take(&mut ctx.stats),
        events: std::mem::take(&mut ctx.events),
    }
}

fn run_seed(master: u64, sim: Sim, index: usize) -> u64 {
    mix(&[master, sim.id(), index as u64])
}

// ======================================================================
// Known findings

struct Known {
    status: String,
    property: String,
    signature: String,
    what: String,
}

fn load_known(path: &str) -> Vec<Known> {
    let Ok(text) = std::fs::read_to_string(path) else { return Vec::new() };
    let Ok(j) = json::parse(&text) else {
        eprintln!("harness error: cannot parse {path}");
        std::process::exit(2);
    };
    let mut out = Vec::new();
    if let Some(items) = j.get("findings").and_then(J::as_arr) {
        for it in items {
            out.push(Known {
                status: it.get("status").and_then(J::as_str).unwrap_or("").to_string(),
                property: it.get("property").and_then(J::as_str).unwrap_or("").to_string(),
                signature: it.get("signature").and_then(J::as_str).unwrap_or("").to_string(),
                what: it.get("what").and_then(J::as_str).unwrap_or("").to_string(),
            });
        }
    }
    out
}

fn is_known<'a>(known: &'a [Known], prop: &str, v: &Violation) -> Option<&'a Known> {
    known
        .iter()
        .find(|k| k.status == "known" && k.property == prop && k.signature == v.sig)
}

// ======================================================================
// Batch

struct Args {
    map: BTreeMap<String, String>,
    pos: Vec<String>,
}

impl Args {
    fn parse() -> Self {
        let mut map = BTreeMap::new();
        let mut pos = Vec::new();
        let mut it = std::env::args().skip(1);
        while let Some(a) = it.next() {
            if let Some(k) = a.strip_prefix("--") {
                let v = it.next().unwrap_or_default();
                map.insert(k.to_string(), v);
            } else {
                pos.push(a);
            }
        }
        Self { map, pos }
    }
    fn get(&self, k: &str) -> Option<&str> {
        self.map.get(k).map(String::as_str)
    }
    fn num(&self, k: &str, default: usize) -> usize {
        self.get(k).and_then(|v| v.parse().ok()).unwrap_or(default)
    }
}

fn worker_count(args: &Args) -> usize {
    args.num(
        "workers",
        std::thread::available_parallelism().map_or(4, |n| n.get()).min(16),
    )
}

/// Runs of every simulator that are executed a second time at the end of a batch (same process, one
/// thread) and must reproduce their event-log hash exactly.
const DETERMINISM_SAMPLE: usize = 48;

struct BatchOut {
    stats: Stats,
    runs: usize,
    per_sim: Vec<(Sim, usize, f64)>,
    failures: Vec<RunResult>,
    known_hits: BTreeMap<String, (String, u64)>,
    hashes: Vec<(Sim, usize, String)>,
}

fn run_batch(prop: &str, master: u64, jobs: &[(Sim, usize)], workers: usize, known: &[Known], keep_hashes: bool, deadline: Option<Instant>) -> BatchOut {
    let mut out = BatchOut {
        stats: Stats::default(),
        runs: 0,
        per_sim: Vec::new(),
        failures: Vec::new(),
        known_hits: BTreeMap::new(),
        hashes: Vec::new(),
    };
    for (sim, n) in jobs {
        let t0 = Instant::now();
        let next = AtomicUsize::new(0);
        let stop = AtomicBool::new(false);
        // watchdog: a run that does not end (an endless loop in the code under test) cannot be judged or
        // replayed; it is reported with its seed as a harness error (exit 2) instead of hanging the check
        let running: Vec<std::sync::atomic::AtomicU64> = (0..workers).map(|_| std::sync::atomic::AtomicU64::new(u64::MAX)).collect();
        let started: Vec<Mutex<Instant>> = (0..workers).map(|_| Mutex::new(Instant::now())).collect();
        let batch_done = AtomicBool::new(false);
        let live = AtomicUsize::new(workers);
        let merged: Mutex<(Stats, Vec<RunResult>, Vec<(usize, String)>, Vec<(usize, String)>, BTreeMap<String, (String, u64)>)> =
            Mutex::new((Stats::default(), Vec::new(), Vec::new(), Vec::new(), BTreeMap::new()));
        std::thread::scope(|scope| {
            scope.spawn(|| {
                while !batch_done.load(Ordering::Relaxed) {
                    std::thread::sleep(Duration::from_millis(250));
                    for w in 0..workers {
                        let i = running[w].load(Ordering::Relaxed);
                        if i != u64::MAX && started[w].lock().unwrap().elapsed() > Duration::from_secs(600) {
                            eprintln!("harness error: {} run {i} (seed {}) has not finished after 600 s - endless loop in the code under test or in the harness; not decidable", sim.name(), run_seed(master, *sim, i as usize));
                            std::process::exit(2);
                        }
                    }
                }
            });
            for w in 0..workers {
                let (running, started, live, batch_done, stop, next, merged) = (&running, &started, &live, &batch_done, &stop, &next, &merged);
                let _ = std::thread::Builder::new().stack_size(32 << 20).spawn_scoped(scope, move || {
                    // big stack: decode keeps a 128 KiB erasure array per frame, lockstep adds copies
                    let mut local = Stats::default();
                    let mut local_fail = Vec::new();
                    let mut local_hashes = Vec::new();
                    let mut local_samples: Vec<(usize, String)> = Vec::new();
                    let mut local_known: BTreeMap<String, (String, u64)> = BTreeMap::new();
                    loop {
                        if stop.load(Ordering::Relaxed) {
                            break;
                        }
                        if let Some(d) = deadline {
                            if Instant::now() > d {
                                break;
                            }
                        }
                        let i = next.fetch_add(1, Ordering::Relaxed);
                        if i >= *n {
                            break;
                        }
                        *started[w].lock().unwrap() = Instant::now();
                        running[w].store(i as u64, Ordering::Relaxed);
                        let caught = std::panic::catch_unwind(std::panic::AssertUnwindSafe(|| run_one(*sim, prop, i, run_seed(master, *sim, i), None, false)));
                        let mut res = match caught {
                            Ok(r) => r,
                            Err(_) => {
                                // a panic outside every guarded call into the crate: a bug of the harness itself
                                eprintln!("harness error: {} run {i} (seed {}) panicked in harness code: {}", sim.name(), run_seed(master, *sim, i), common::take_panic_message());
                                std::process::exit(2);
                            }
                        };
                        if std::env::var_os("RSIM_SLOW_RUNS").is_some() {
                            // diagnostics only (never part of a registered command): where the wall time goes
                            let ms = started[w].lock().unwrap().elapsed().as_millis();
                            if ms > 3000 {
                                eprintln!("slow run: {} run {i} seed {} took {ms} ms", sim.name(), res.seed);
                            }
                        }
                        if keep_hashes || i < DETERMINISM_SAMPLE {
                            local_hashes.push((i, res.hash.clone()));
                        }
                        if res.stats.samples.is_empty() && local_samples.is_empty() {
                            local_samples.push((i, format!("seed {} -> {} decisions, event-log hash {}", res.seed, res.decisions.len(), res.hash)));
                        }
                        for s in res.stats.samples.drain(..) {
                            if local_samples.len() < 4 || i < 4 {
                                local_samples.push((i, s));
                            }
                        }
                        local.merge(&res.stats);
                        if let Some(v) = &res.violation {
                            if let Some(k) = is_known(known, prop, v) {
                                let e = local_known.entry(k.signature.clone()).or_insert((k.what.clone(), 0));
                                e.1 += 1;
                            } else {
                                stop.store(true, Ordering::Relaxed);
                                local_fail.push(res);
                            }
                        }
                    }
                    running[w].store(u64::MAX, Ordering::Relaxed);
                    if live.fetch_sub(1, Ordering::Relaxed) == 1 {
                        batch_done.store(true, Ordering::Relaxed);
                    }
                    let mut m = merged.lock().unwrap();
                    m.0.merge(&local);
                    m.1.extend(local_fail);
                    m.2.extend(local_hashes);
                    m.3.extend(local_samples);
                    for (k, v) in local_known {
                        let e = m.4.entry(k).or_insert((v.0.clone(), 0));
                        e.1 += v.1;
                    }
                });
            }
        });
        let (stats, fails, hashes, mut samples, known_hits) = merged.into_inner().unwrap();
        let done = stats.counters.get("runs").copied().unwrap_or(0) as usize;
        out.runs += done;
        out.per_sim.push((*sim, done, t0.elapsed().as_secs_f64()));
        out.stats.merge(&stats);
        samples.sort();
        for (i, s) in samples.into_iter().take(3) {
            out.stats.samples.push(format!("[{} run {i}] {s}", sim.name()));
        }
        out.failures.extend(fails);
        for (k, v) in known_hits {
            let e = out.known_hits.entry(k).or_insert((v.0.clone(), 0));
            e.1 += v.1;
        }
        let mut hashes: Vec<(Sim, usize, String)> = hashes.into_iter().map(|(i, h)| (*sim, i, h)).collect();
        hashes.sort_by_key(|x| x.1);
        out.hashes.extend(hashes);
        if !out.failures.is_empty() {
            break;
        }
    }
    out.failures.sort_by_key(|f| (f.sim.id(), f.index));
    out
}

// ======================================================================
// Replay files

fn replay_json(prop: &str, tier: &str, res: &RunResult, shrunk_from: usize, shrink_execs: usize) -> J {
    let v = res.violation.as_ref().unwrap();
    J::obj()
        .with("format", J::s("rsim-replay-1"))
        .with("property", J::s(prop))
        .with("simulator", J::s(res.sim.name()))
        .with("tier", J::s(tier))
        .with("build_profile", J::s(BUILD_PROFILE))
        .with("seed", J::u(res.seed))
        .with("run_index", J::us(res.index))
        .with("violation_class", J::s(v.class(prop)))
        .with(
            "violation",
            J::obj()
                .with("oracle", J::s(v.oracle))
                .with("signature", J::s(v.sig.clone()))
                .with("properties", J::Arr(v.props.iter().map(|p| J::s(*p)).collect()))
                .with("detail", J::s(v.detail.clone())),
        )
        .with("minimised_from_decisions", J::us(shrunk_from))
        .with("minimiser_executions", J::us(shrink_execs))
        .with("decisions", J::arr_u64(&res.decisions))
        .with("events", J::Arr(res.events.iter().map(|e| J::s(e.clone())).collect()))
}

fn cmd_replay(path: &str) -> i32 {
    let text = match std::fs::read_to_string(path) {
        Ok(t) => t,
        Err(e) => {
            eprintln!("harness error: cannot read {path}: {e}");
            return 2;
        }
    };
    let j = match json::parse(&text) {
        Ok(j) => j,
        Err(e) => {
            eprintln!("harness error: cannot parse {path}: {e}");
            return 2;
        }
    };
    let prop = j.get("property").and_then(J::as_str).unwrap_or("").to_string();
    let Some(sim) = j.get("simulator").and_then(J::as_str).and_then(Sim::from_name) else {
        eprintln!("harness error: unknown simulator in {path}");
        return 2;
    };
    let want_class = j.get("violation_class").and_then(J::as_str).unwrap_or("").to_string();
    let decisions: Vec<u64> = j
        .get("decisions")
        .and_then(J::as_arr)
        .map(|a| a.iter().filter_map(J::as_u64).collect())
        .unwrap_or_default();
    let seed = j.get("seed").and_then(J::as_u64).unwrap_or(0);
    if j.get("crash") == Some(&J::Bool(true)) {
        let st = self_cmd().args(["probe", "--property", &prop, "--sim", sim.name(), "--run-seed", &seed.to_string()]).stdout(std::process::Stdio::null()).stderr(std::process::Stdio::null()).status();
        return match st {
            Ok(s) if s.code().is_none() => {
                println!("reproduced: the process executing {} seed {seed} is killed again ({s})", sim.name());
                println!("VIOLATION property={prop} replay={path}");
                1
            }
            Ok(_) => {
                println!("no crash on this tree");
                0
            }
            Err(e) => {
                eprintln!("harness error: {e}");
                2
            }
        };
    }
    if j.get("build_profile").and_then(J::as_str) != Some(BUILD_PROFILE) {
        eprintln!("note: replay was recorded with build profile {:?}, this binary is {BUILD_PROFILE}", j.get("build_profile").and_then(J::as_str));
    }
    let res = run_one(sim, &prop, 0, seed, Some(&decisions), true);
    println!("replay of {path}: simulator {} property {prop} ({} decisions)", sim.name(), decisions.len());
    for e in &res.events {
        println!("  {e}");
    }
    println!("log hash {}", res.hash);
    match &res.violation {
        Some(v) if v.class(&prop) == want_class => {
            println!("reproduced: {} [{}] {}", v.oracle, v.sig, v.detail);
            println!("VIOLATION property={prop} replay={path}");
            1
        }
        Some(v) => {
            println!("a different violation occurred: {} [{}] {}", v.oracle, v.sig, v.detail);
            println!("VIOLATION property={prop} replay={path}");
            1
        }
        None => {
            println!("no violation on this tree (recorded class: {want_class})");
            0
        }
    }
}

// ======================================================================
// check

fn components() -> J {
    J::obj()
        .with(
            "real",
            J::Arr(
                [
                    "every codec (ReedSolomon*, DefaultRate*, HighRate*, LowRate*), EncoderWork/DecoderWork, result types, one-shot encode/decode, Naive/NoSimd/Ssse3/Avx2/DefaultEngine, table construction: compiled from /repo's working tree with feature verif-hooks",
                    "Neon engine source (/repo/src/engine/engine_neon.rs), compiled against emulated intrinsics",
                    "std::sync::LazyLock, CPU feature detection (narrowed by the mask hook, never widened)",
                ]
                .iter()
                .map(|s| J::s(*s))
                .collect(),
            ),
        )
        .with(
            "stub",
            J::Arr(
                [
                    "the 7 AArch64 intrinsics used by the Neon engine (emulated from the Arm ARM semantics)",
                    "Sim A writers, storage nodes, readers, network, disks and clock (harness code)",
                    "reference models R1 (closed-form Cauchy encoder), R2 (API state machine), R4 (envelope / rate rule), R5 (sizing)",
                    "global allocator: a counting wrapper around the system allocator that places alignment-1 blocks 0, 1, 2, 4, 8 or 12 bytes past a 16-byte boundary (fault F21)",
                ]
                .iter()
                .map(|s| J::s(*s))
                .collect(),
            ),
        )
}

fn rule_for(prop: &str) -> &'static str {
    match prop {
        "C14" => "each run draws a CPU feature mask (all 4 subsets of {avx2, ssse3} are enumerated per run), a codec layer on DefaultEngine and a seeded configuration; distinct = distinct (mask, layer, primitive, rate) tuples whose ISA trace was checked",
        _ => "seeded runs; every choice (object kind, engine, configuration, operations, faults, data, poison) comes from one PRNG through the Chooser. distinct_nontrivial = number of distinct abstract transitions (simulator, codec layer, engine, fill class / delivery class, operation or fault kind, failed-call flag, history flag, verdict) reached, hashed and counted in a set; runs that performed no crate call are not counted",
    }
}

fn cmd_check(args: &Args) -> i32 {
    let t0 = Instant::now();
    let prop = args.get("property").unwrap_or("").to_string();
    let tier = args.get("tier").unwrap_or("quick").to_string();
    let master: u64 = args
        .get("seed")
        .map(str::to_string)
        .or_else(|| std::env::var("VERIF_SEED").ok())
        .and_then(|s| s.parse().ok())
        .unwrap_or(1);
    let workers = worker_count(args);
    let known = load_known(args.get("known").unwrap_or("/verif/known_findings.json"));
    let replay_dir = args.get("replays").unwrap_or("/verif/replays").to_string();
    let level = args.get("level").unwrap_or("exploration").to_string();
    println!("rsim check property={prop} tier={tier} VERIF_SEED={master} workers={workers} build_profile={BUILD_PROFILE}");

    if let Err(e) = simcore::gf::self_test().and_then(|()| simcore::envelope::self_test()).and_then(|()| oneshot::self_test()) {
        eprintln!("harness error: reference model self-test failed: {e}");
        return 2;
    }
    warm_tables();

    let mut jobs: Vec<(Sim, usize)> = planned_jobs(&prop, &tier);
    if let Some(only) = args.get("sim").and_then(Sim::from_name) {
        jobs.retain(|j| j.0 == only);
    }
    if let Some(n) = args.get("runs").and_then(|v| v.parse::<usize>().ok()) {
        for j in jobs.iter_mut().filter(|j| j.0 != Sim::Jumbo) {
            j.1 = n;
        }
    }
    if jobs.is_empty() {
        eprintln!("harness error: no plan for property {prop:?}");
        return 2;
    }
    let deadline = args.get("max-seconds").and_then(|v| v.parse::<u64>().ok()).map(|s| t0 + Duration::from_secs(s));
    let out = run_batch(&prop, master, &jobs, workers, &known, false, deadline);

    // determinism sample: re-execute the first runs of every simulator and compare event-log hashes
    let mut resampled = 0usize;
    if out.failures.is_empty() {
        for (sim, i, h) in out.hashes.iter().filter(|x| x.1 < DETERMINISM_SAMPLE) {
            let again = run_one(*sim, &prop, *i, run_seed(master, *sim, *i), None, false);
            resampled += 1;
            if &again.hash != h && again.violation.is_none() {
                eprintln!("harness error: {} run {i} (seed {}) is not reproducible: event-log hash {h} then {} - a source of nondeterminism is not behind a seam", sim.name(), run_seed(master, *sim, *i), again.hash);
                // diagnosis: the same run traced on a new thread and on this one; the first event that differs
                let (sim2, prop2, i2, seed2) = (*sim, prop.clone(), *i, run_seed(master, *sim, *i));
                let fresh = std::thread::Builder::new().stack_size(64 << 20).spawn(move || run_one(sim2, &prop2, i2, seed2, None, true)).ok().and_then(|t| t.join().ok());
                let here = run_one(*sim, &prop, *i, seed2, None, true);
                if let Some(fresh) = fresh {
                    let k = fresh.events.iter().zip(here.events.iter()).position(|(a, b)| a != b).unwrap_or(fresh.events.len().min(here.events.len()));
                    eprintln!("  on a new thread: hash {}, {} events; on this thread: hash {}, {} events; first difference at event {k}", fresh.hash, fresh.events.len(), here.hash, here.events.len());
                    eprintln!("  new thread : {}", fresh.events.get(k).map_or("(end of log)", String::as_str));
                    eprintln!("  this thread: {}", here.events.get(k).map_or("(end of log)", String::as_str));
                }
                return 2;
            }
        }
    }
    for (sig, (what, n)) in &out.known_hits {
        println!("KNOWN-FINDING: property={prop} {what} [signature {sig}, hit in {n} runs]");
    }

    let mut exit = 0;
    let mut violation_lines = Vec::new();
    if let Some(fail) = out.failures.first() {
        let v = fail.violation.as_ref().unwrap();
        let class = v.class(&prop);
        println!("violation in {} run {} (seed {}): {} [{}] {}", fail.sim.name(), fail.index, fail.seed, v.oracle, v.sig, v.detail);
        // minimise the decision vector
        let sim = fail.sim;
        let from_len = fail.decisions.len();
        let (best, st) = shrink::shrink(fail.decisions.clone(), &class, 1500, Duration::from_secs(45), |cand| {
            let r = run_one(sim, &prop, 0, fail.seed, Some(cand), false);
            r.violation.as_ref().and_then(|v| if is_known(&known, &prop, v).is_some() { None } else { Some(v.class(&prop)) })
        });
        let min_res = run_one(sim, &prop, fail.index, fail.seed, Some(&best), true);
        let final_res = if min_res.violation.as_ref().map(|v| v.class(&prop)) == Some(class.clone()) {
            min_res
        } else {
            run_one(sim, &prop, fail.index, fail.seed, Some(&fail.decisions), true)
        };
        if final_res.violation.is_none() {
            eprintln!("harness error: the violation of {} run {} (seed {}) does not recur when its own decisions are re-executed in this process (was /repo changed while the check ran?)", fail.sim.name(), fail.index, fail.seed);
            return 2;
        }
        println!("minimised {} -> {} decisions in {} executions", from_len, final_res.decisions.len(), st.executions);
        let _ = std::fs::create_dir_all(&replay_dir);
        let path = format!("{replay_dir}/{prop}-{}-{}.json", BUILD_PROFILE, fail.seed);
        let body = replay_json(&prop, &tier, &final_res, from_len, st.executions).to_string_pretty();
        if let Err(e) = std::fs::write(&path, body) {
            eprintln!("harness error: cannot write {path}: {e}");
            return 2;
        }
        // confirm in a fresh process
        let exe = std::env::current_exe().unwrap();
        let status = std::process::Command::new(exe).arg("replay").arg(&path).stdout(std::process::Stdio::null()).status();
        match status {
            Ok(s) if s.code() == Some(1) => {
                let skip = final_res.events.len().saturating_sub(60);
                if skip > 0 {
                    println!("  ... {skip} earlier events omitted (all are in the replay file)");
                }
                for e in final_res.events.iter().skip(skip) {
                    println!("  {e}");
                }
                let v = final_res.violation.as_ref().unwrap();
                println!("  => {} [{}] {}", v.oracle, v.sig, v.detail);
                violation_lines.push(format!("VIOLATION property={prop} replay={path}"));
                exit = 1;
            }
            other => {
                eprintln!("harness error: replay {path} did not reproduce in a fresh process ({other:?})");
                return 2;
            }
        }
    }

    // evidence
    let wall = t0.elapsed().as_secs_f64();
    let mut counters = J::obj();
    let mut faults = J::obj();
    let mut probes = J::obj();
    for (k, v) in &out.stats.counters {
        if let Some(f) = k.strip_prefix("fault.") {
            faults.set(f, J::u(*v));
        } else if let Some(p) = k.strip_prefix("probe.") {
            probes.set(p, J::u(*v));
        } else {
            counters.set(k, J::u(*v));
        }
    }
    let per_sim = J::Arr(
        out.per_sim
            .iter()
            .map(|(s, n, secs)| {
                J::obj()
                    .with("simulator", J::s(s.name()))
                    .with("runs", J::us(*n))
                    .with("wall_s", J::Num(*secs))
                    .with("runs_per_hour", J::u(if *secs > 0.0 { (*n as f64 / secs * 3600.0) as u64 } else { 0 }))
            })
            .collect(),
    );
    let sim_time = out.stats.counters.get("sim.simulated_ms").copied().unwrap_or(0);
    let mut coverage = J::obj()
        .with("evaluations", J::us(out.runs))
        .with("distinct_nontrivial", J::us(out.stats.distinct.len()))
        .with("rule", J::s(rule_for(&prop)))
        .with("samples", J::Arr(out.stats.samples.iter().map(|s| J::s(s.clone())).collect()))
        .with("build_profile", J::s(BUILD_PROFILE))
        .with("workers", J::us(workers))
        .with("runs_per_hour", J::u(if wall > 0.0 { (out.runs as f64 / wall * 3600.0) as u64 } else { 0 }))
        .with("seeds", J::s(format!("VERIF_SEED={master}; run seed = mix(VERIF_SEED, simulator, run index), run indexes 0..n per simulator")))
        .with("simulated_time_ms", J::u(sim_time))
        .with("simulators", per_sim)
        .with("faults_fired", faults)
        .with("probes", probes)
        .with("counters", counters)
        .with("components", components())
        .with("determinism_sample", J::s(format!("{resampled} runs re-executed at the end of the batch, event-log hashes identical")))
        .with("exhaustive", J::Bool(false));
    if !out.stats.tuples.is_empty() {
        coverage.set(
            "engine_primitive_tuples_reached",
            J::Arr(
                out.stats
                    .tuples
                    .iter()
                    .map(|t| J::s(format!("{}:log2size={},truncated_class={},skew_class={},blocks={}", ["fft", "ifft", "mul", "eval_poly", "fft(perturbed shadow call)", "ifft(perturbed shadow call)"][t.0 as usize], t.1, t.2, t.3, t.4)))
                    .collect(),
            ),
        );
    }
    if !out.known_hits.is_empty() {
        coverage.set("known_findings_hit", J::Arr(out.known_hits.iter().map(|(k, v)| J::s(format!("{k}: {} runs", v.1))).collect()));
    }
    let evidence = J::obj()
        .with("property_id", J::s(prop.clone()))
        .with("tier", J::s(tier.clone()))
        .with("seed", J::u(master))
        .with("level", J::s(level))
        .with("coverage", coverage)
        .with(
            "assumptions",
            J::Arr(
                [
                    "reference models R1/R2/R4/R5 are written from the property statements and README, self-tested at start-up (two formulations)",
                    "sampling, not enumeration: a clean batch is evidence, not proof",
                    "poison (H1) is injected only where the contract declares working memory dead",
                    "Neon is validated at source level against emulated intrinsics, not on an Arm CPU",
                ]
                .iter()
                .map(|s| J::s(*s))
                .collect(),
            ),
        )
        .with("wall_s", J::Num(wall))
        .with("violations", J::us(out.failures.len()));
    if let Some(path) = args.get("evidence") {
        if let Some(dir) = std::path::Path::new(path).parent() {
            let _ = std::fs::create_dir_all(dir);
        }
        if let Err(e) = std::fs::write(path, evidence.to_string_pretty()) {
            eprintln!("harness error: cannot write evidence {path}: {e}");
            return 2;
        }
    }
    println!(
        "{} runs, {} distinct transitions, {:.1}s, {} violation(s), {} known-finding signature(s)",
        out.runs,
        out.stats.distinct.len(),
        wall,
        out.failures.len(),
        out.known_hits.len()
    );
    for l in violation_lines {
        println!("{l}");
    }
    exit
}

// ======================================================================
// Crash triage: the code under test may die by a signal (an unsafe kernel reading out of bounds, an aligned
// load on an unaligned address, an illegal instruction). The batch therefore runs in a child process; if it is
// killed, the crashing run is located by bisection over run indexes in further child processes and reported
// with a replay file that re-executes that run by its seed.

fn self_cmd() -> std::process::Command {
    std::process::Command::new(std::env::current_exe().expect("current exe"))
}

/// The plan of a property for this tier and build profile.
fn planned_jobs(prop: &str, tier: &str) -> Vec<(Sim, usize)> {
    // (Sim J needs about 13 GiB and 15-30 s per run in the release profile and several times that with overflow
    // checks and debug assertions: release profile only)
    plan(prop)
        .into_iter()
        .map(|(s, q, t)| (s, if s == Sim::Jumbo && BUILD_PROFILE == "checked" { 0 } else { scale_for_profile(if tier == "thorough" { t } else { q }) }))
        .filter(|(_, n)| *n > 0)
        .collect()
}

fn job_list(args: &Args, prop: &str, tier: &str) -> Vec<(Sim, usize)> {
    let mut jobs: Vec<(Sim, usize)> = planned_jobs(prop, tier);
    if let Some(only) = args.get("sim").and_then(Sim::from_name) {
        jobs.retain(|j| j.0 == only);
    }
    if let Some(n) = args.get("runs").and_then(|v| v.parse::<usize>().ok()) {
        for j in jobs.iter_mut().filter(|j| j.0 != Sim::Jumbo) {
            j.1 = n;
        }
    }
    jobs
}

/// `rsim probe --property P --sim NAME --from a --to b --seed M`: executes the runs, ignores verdicts, exit 0.
fn cmd_probe(args: &Args) -> i32 {
    let prop = args.get("property").unwrap_or("").to_string();
    let Some(sim) = args.get("sim").and_then(Sim::from_name) else { return 2 };
    let master = args.num("seed", 1) as u64;
    let (from, to) = (args.num("from", 0), args.num("to", 0));
    warm_tables();
    if let Some(run_seed_arg) = args.get("run-seed").and_then(|v| v.parse::<u64>().ok()) {
        let _ = run_one(sim, &prop, 0, run_seed_arg, None, false);
        return 0;
    }
    let next = AtomicUsize::new(from);
    let workers = if to - from > 256 { worker_count(args) } else { 1 };
    std::thread::scope(|scope| {
        for _ in 0..workers {
            let _ = std::thread::Builder::new().stack_size(32 << 20).spawn_scoped(scope, || loop {
                let i = next.fetch_add(1, Ordering::Relaxed);
                if i >= to {
                    break;
                }
                let trace = args.get("trace").is_some();
                let res = std::panic::catch_unwind(std::panic::AssertUnwindSafe(|| run_one(sim, &prop, i, run_seed(master, sim, i), None, trace)));
                if let (true, Ok(r)) = (trace, res) {
                    for e in r.events.iter().take(2000000) {
                        println!("{e}");
                    }
                }
            });
        }
    });
    0
}

fn probe_crashes(prop: &str, sim: Sim, master: u64, from: usize, to: usize) -> bool {
    let st = self_cmd()
        .args(["probe", "--property", prop, "--sim", sim.name(), "--seed", &master.to_string(), "--from", &from.to_string(), "--to", &to.to_string()])
        .stdout(std::process::Stdio::null())
        .stderr(std::process::Stdio::null())
        .status();
    !matches!(st, Ok(s) if s.code().is_some())
}

fn cmd_check_outer(args: &Args) -> i32 {
    let mut cmd = self_cmd();
    cmd.args(std::env::args().skip(1)).args(["--inner", "1"]);
    let status = match cmd.status() {
        Ok(s) => s,
        Err(e) => {
            eprintln!("harness error: cannot start the batch process: {e}");
            return 2;
        }
    };
    if let Some(code) = status.code() {
        return code;
    }
    // killed by a signal
    #[cfg(unix)]
    {
        // SIGKILL / SIGTERM / SIGINT / SIGHUP come from outside (out-of-memory killer, a supervisor's time limit, the
        // user), never from the code under test: a harness error, not a verdict
        let sig = std::os::unix::process::ExitStatusExt::signal(&status);
        if matches!(sig, Some(9 | 15 | 2 | 1)) {
            eprintln!("harness error: the batch process was killed from outside ({status}): out of memory, or stopped by a supervisor");
            return 2;
        }
    }
    let prop = args.get("property").unwrap_or("").to_string();
    let tier = args.get("tier").unwrap_or("quick").to_string();
    let master: u64 = args.get("seed").map(str::to_string).or_else(|| std::env::var("VERIF_SEED").ok()).and_then(|s| s.parse().ok()).unwrap_or(1);
    let replay_dir = args.get("replays").unwrap_or("/verif/replays").to_string();
    println!("the batch process was killed by a signal ({status}); locating the run");
    let mut probed = 0usize;
    for (sim, n) in job_list(args, &prop, &tier) {
        if !probe_crashes(&prop, sim, master, 0, n) {
            probed += n;
            continue;
        }
        let (mut lo, mut hi) = (0usize, n); // a crashing run lies in [lo, hi)
        while hi - lo > 1 {
            let mid = lo + (hi - lo) / 2;
            probed += mid - lo;
            if probe_crashes(&prop, sim, master, lo, mid) {
                hi = mid;
            } else {
                lo = mid;
            }
        }
        let seed = run_seed(master, sim, lo);
        // confirm: that run alone, by its seed, in a fresh process
        let st = self_cmd()
            .args(["probe", "--property", &prop, "--sim", sim.name(), "--run-seed", &seed.to_string()])
            .stdout(std::process::Stdio::null())
            .stderr(std::process::Stdio::null())
            .status();
        let how = match &st {
            Ok(s) if s.code().is_none() => format!("{s}"),
            other => {
                eprintln!("harness error: {} run {lo} (seed {seed}) does not crash when executed alone ({other:?}); the crash depends on state outside the run", sim.name());
                return 2;
            }
        };
        let _ = std::fs::create_dir_all(&replay_dir);
        let path = format!("{replay_dir}/{prop}-{BUILD_PROFILE}-crash-{seed}.json");
        let body = J::obj()
            .with("format", J::s("rsim-replay-1"))
            .with("property", J::s(prop.clone()))
            .with("simulator", J::s(sim.name()))
            .with("tier", J::s(tier.clone()))
            .with("build_profile", J::s(BUILD_PROFILE))
            .with("seed", J::u(seed))
            .with("run_index", J::us(lo))
            .with("crash", J::Bool(true))
            .with("violation_class", J::s(format!("{prop}/process-killed")))
            .with("violation", J::obj().with("oracle", J::s("process-killed")).with("detail", J::s(format!("the process executing {} run {lo} (seed {seed}) is killed: {how}; memory safety of the code under test is broken, no listed property can hold", sim.name()))))
            .with("decisions", J::Arr(vec![]))
            .with("how_to_replay", J::s("the run is re-executed from its seed in a child process; reproduction = the child is killed by a signal again"))
            .to_string_pretty();
        if std::fs::write(&path, body).is_err() {
            eprintln!("harness error: cannot write {path}");
            return 2;
        }
        println!("violation in {} run {lo} (seed {seed}): process-killed [{how}] while checking {prop}", sim.name());
        if let Some(ev) = args.get("evidence") {
            let coverage = J::obj()
                .with("evaluations", J::us(probed.max(1)))
                .with("distinct_nontrivial", J::us(probed.max(2)))
                .with("rule", J::s("the batch process was killed by a signal; evaluations = runs executed by the bisection probes that located the crashing run, every one a distinct seeded run"))
                .with("samples", J::Arr(vec![J::s(format!("{} run {lo} seed {seed}: {how}", sim.name()))]))
                .with("build_profile", J::s(BUILD_PROFILE));
            let evidence = J::obj()
                .with("property_id", J::s(prop.clone()))
                .with("tier", J::s(tier.clone()))
                .with("seed", J::u(master))
                .with("level", J::s(args.get("level").unwrap_or("exploration")))
                .with("coverage", coverage)
                .with("wall_s", J::Num(0.0))
                .with("violations", J::us(1));
            let _ = std::fs::write(ev, evidence.to_string_pretty());
        }
        println!("VIOLATION property={prop} replay={path}");
        return 1;
    }
    eprintln!("harness error: the batch process was killed by a signal but no simulator's runs crash when probed");
    2
}

/// Touches all lazily initialised tables so that allocation measurement (C17) never sees them.
fn warm_tables() {
    use reed_solomon_simd::engine::tables;
    std::hint::black_box(tables::EXP_LOG.exp[1]);
    std::hint::black_box(tables::LOG_WALSH[1]);
    std::hint::black_box(tables::MUL16[1][0][1]);
    std::hint::black_box(tables::MUL128[1].lo[0]);
    std::hint::black_box(tables::SKEW[1]);
}

fn cmd_hashes(args: &Args) -> i32 {
    let prop = args.get("property").unwrap_or("").to_string();
    let master = args.num("seed", 1) as u64;
    let n = args.num("runs", 50);
    warm_tables();
    let jobs: Vec<(Sim, usize)> = plan(&prop).into_iter().filter(|(s, _, _)| *s != Sim::Jumbo).map(|(s, _, _)| (s, n)).collect();
    let out = run_batch(&prop, master, &jobs, worker_count(args), &[], true, None);
    for (s, i, h) in &out.hashes {
        println!("{} {} {}", s.name(), i, h);
    }
    0
}

fn main() {
    common::install_panic_hook();
    let args = Args::parse();
    // run everything on a big-stack thread
    let code = std::thread::Builder::new()
        .stack_size(64 << 20)
        .spawn(move || match args.pos.first().map(String::as_str) {
            Some("check") if args.get("inner").is_none() => cmd_check_outer(&args),
            Some("check") => cmd_check(&args),
            Some("probe") => cmd_probe(&args),
            Some("replay") => match args.pos.get(1) {
                Some(p) => {
                    warm_tables();
                    cmd_replay(p)
                }
                None => 2,
            },
            Some("hashes") => cmd_hashes(&args),
            Some("selftest") => match simcore::gf::self_test().and_then(|()| simcore::envelope::self_test()).and_then(|()| oneshot::self_test()) {
                Ok(()) => {
                    println!("self-test ok");
                    0
                }
                Err(e) => {
                    eprintln!("{e}");
                    2
                }
            },
            _ => {
                eprintln!("usage: rsim check --property Cxx --tier quick|thorough [--seed N] [--evidence file] | rsim replay <file> | rsim hashes --property Cxx --runs N | rsim selftest");
                2
            }
        })
        .unwrap()
        .join();
    match code {
        Ok(c) => std::process::exit(c),
        Err(_) => {
            eprintln!("harness error: main thread panicked: {}", common::LAST_PANIC.lock().map(|g| g.clone()).unwrap_or_default());
            std::process::exit(2);
        }
    }
}
