//! Uniform, object-safe view of every codec type the crate exports (the public API is the seam).

use reed_solomon_simd::{
    engine::{DefaultEngine, Engine, Naive, NoSimd},
    rate::{
        DecoderWork, DefaultRate, DefaultRateDecoder, DefaultRateEncoder, EncoderWork, HighRate,
        HighRateDecoder, HighRateEncoder, LowRate, LowRateDecoder, LowRateEncoder, Rate,
        RateDecoder, RateEncoder,
    },
    DecoderResult, EncoderResult, Error, ReedSolomonDecoder, ReedSolomonEncoder,
};
#[cfg(target_arch = "x86_64")]
use reed_solomon_simd::engine::{Avx2, Ssse3};

use crate::lockstep::Lockstep;
use crate::neon::NeonEmu;
use simcore::envelope::Family;

#[derive(Clone, Copy, Debug, PartialEq, Eq, Hash, PartialOrd, Ord)]
pub enum EngineKind {
    NoSimd,
    Naive,
    Ssse3,
    Avx2,
    Default,
    NeonEmu,
    Lockstep,
}

impl EngineKind {
    pub const ALL: [EngineKind; 7] = [
        EngineKind::NoSimd,
        EngineKind::Naive,
        EngineKind::Ssse3,
        EngineKind::Avx2,
        EngineKind::Default,
        EngineKind::NeonEmu,
        EngineKind::Lockstep,
    ];
    pub fn name(self) -> &'static str {
        match self {
            EngineKind::NoSimd => "NoSimd",
            EngineKind::Naive => "Naive",
            EngineKind::Ssse3 => "Ssse3",
            EngineKind::Avx2 => "Avx2",
            EngineKind::Default => "DefaultEngine",
            EngineKind::NeonEmu => "NeonEmu",
            EngineKind::Lockstep => "Lockstep",
        }
    }
    /// Usable on this host (never run code for an ISA the host lacks).
    pub fn available(self) -> bool {
        match self {
            EngineKind::Ssse3 => std::is_x86_feature_detected!("ssse3"),
            EngineKind::Avx2 => std::is_x86_feature_detected!("avx2"),
            EngineKind::Lockstep => {
                std::is_x86_feature_detected!("ssse3") && std::is_x86_feature_detected!("avx2")
            }
            _ => true,
        }
    }
}

#[derive(Clone, Copy, Debug, PartialEq, Eq, Hash, PartialOrd, Ord)]
pub enum Layer {
    /// `ReedSolomonEncoder` / `ReedSolomonDecoder` (always `DefaultEngine`)
    Rs,
    Default,
    High,
    Low,
}

impl Layer {
    pub const ALL: [Layer; 4] = [Layer::Rs, Layer::Default, Layer::High, Layer::Low];
    pub fn family(self) -> Family {
        match self {
            Layer::Rs | Layer::Default => Family::Default,
            Layer::High => Family::High,
            Layer::Low => Family::Low,
        }
    }
    pub fn name(self) -> &'static str {
        match self {
            Layer::Rs => "ReedSolomon",
            Layer::Default => "DefaultRate",
            Layer::High => "HighRate",
            Layer::Low => "LowRate",
        }
    }
    pub fn dedicated(high: bool) -> Layer {
        if high {
            Layer::High
        } else {
            Layer::Low
        }
    }
}

#[derive(Clone, Copy, Debug, PartialEq, Eq, Hash, PartialOrd, Ord)]
pub struct Kind {
    pub layer: Layer,
    pub engine: EngineKind,
}

impl Kind {
    pub fn name(self) -> String {
        if self.layer == Layer::Rs {
            "ReedSolomon".to_string()
        } else {
            format!("{}<{}>", self.layer.name(), self.engine.name())
        }
    }
}

thread_local! {
    static CTOR_STATS: std::cell::Cell<simcore::countalloc::AllocStats> = const { std::cell::Cell::new(simcore::countalloc::AllocStats { calls: 0, bytes: 0, largest: 0, big_calls: 0 }) };
}

/// Allocation requests made inside the last `RateEncoder::new` / `RateDecoder::new` on this thread.
pub fn take_ctor_stats() -> simcore::countalloc::AllocStats {
    CTOR_STATS.with(std::cell::Cell::take)
}

/// Installs constructor statistics taken on another thread (a history that continues on this one).
pub fn set_ctor_stats(st: simcore::countalloc::AllocStats) {
    CTOR_STATS.with(|c| c.set(st));
}

pub fn mk_counter() -> u32 {
    MK_COUNTER.with(std::cell::Cell::get)
}

pub fn set_mk_counter(v: u32) {
    MK_COUNTER.with(|c| c.set(v));
}

pub trait MkEngine: Engine + Sized + 'static {
    fn mk() -> Self;
}

thread_local! {
    static MK_COUNTER: std::cell::Cell<u32> = const { std::cell::Cell::new(0) };
}

/// Engines are constructed alternately through `new()`, `Default::default()` and (where the type is `Copy`)
/// a copy of a constructed value: all documented ways of obtaining one.
/// Called at the start of every run so that the sequence is a function of the run alone.
pub fn reset_mk_counter() {
    MK_COUNTER.with(|c| c.set(0));
}

fn mk_variant() -> u32 {
    MK_COUNTER.with(|c| {
        let v = c.get();
        c.set(v.wrapping_add(1));
        v % 3
    })
}
impl MkEngine for Naive {
    fn mk() -> Self {
        match mk_variant() {
            0 => Naive::new(),
            1 => Naive::default(),
            _ => {
                let first = Naive::new();
                let copy = first;
                std::hint::black_box(first);
                copy
            }
        }
    }
}
impl MkEngine for NoSimd {
    fn mk() -> Self {
        match mk_variant() {
            0 => NoSimd::new(),
            1 => NoSimd::default(),
            _ => {
                let first = NoSimd::new();
                let copy = first;
                std::hint::black_box(first);
                copy
            }
        }
    }
}
impl MkEngine for Ssse3 {
    fn mk() -> Self {
        match mk_variant() {
            0 => Ssse3::new(),
            1 => Ssse3::default(),
            _ => {
                let first = Ssse3::new();
                let copy = first;
                std::hint::black_box(first);
                copy
            }
        }
    }
}
impl MkEngine for Avx2 {
    fn mk() -> Self {
        match mk_variant() {
            0 => Avx2::new(),
            1 => Avx2::default(),
            _ => {
                let first = Avx2::new();
                let copy = first;
                std::hint::black_box(first);
                copy
            }
        }
    }
}
impl MkEngine for DefaultEngine {
    fn mk() -> Self {
        if mk_variant() == 1 {
            DefaultEngine::default()
        } else {
            DefaultEngine::new()
        }
    }
}
impl MkEngine for NeonEmu {
    fn mk() -> Self {
        NeonEmu::new()
    }
}
impl MkEngine for Lockstep {
    fn mk() -> Self {
        Lockstep::new()
    }
}

macro_rules! with_engine {
    ($kind:expr, $E:ident => $body:expr) => {
        match $kind {
            EngineKind::Naive => {
                type $E = Naive;
                $body
            }
            EngineKind::NoSimd => {
                type $E = NoSimd;
                $body
            }
            EngineKind::Ssse3 => {
                type $E = Ssse3;
                $body
            }
            EngineKind::Avx2 => {
                type $E = Avx2;
                $body
            }
            EngineKind::Default => {
                type $E = DefaultEngine;
                $body
            }
            EngineKind::NeonEmu => {
                type $E = NeonEmu;
                $body
            }
            EngineKind::Lockstep => {
                type $E = Lockstep;
                $body
            }
        }
    };
}

/// A shard argument whose `as_ref()` is not pure: the first call returns one slice, later calls another
/// (a double-buffered source). The API takes `T: AsRef<[u8]>`; nothing allows it to assume purity, so a call
/// must look at the argument once - whatever it does, it must not panic and must not report an untruthful error.
pub struct Flaky<'a> {
    calls: std::cell::Cell<u32>,
    first: &'a [u8],
    later: &'a [u8],
    panics: bool,
}

/// Payload of the simulated caller's own panics (raised with `resume_unwind`, so no panic hook runs).
pub struct CallerCrash;

impl<'a> Flaky<'a> {
    pub fn new(first: &'a [u8], later: &'a [u8]) -> Self {
        Self { calls: std::cell::Cell::new(0), first, later, panics: false }
    }
    /// The same shard as it was before anybody looked at it.
    pub fn fresh_copy(&self) -> Flaky<'a> {
        Self { calls: std::cell::Cell::new(0), first: self.first, later: self.later, panics: self.panics }
    }
    /// A shard whose `as_ref()` panics the first time it is called (a bug in the caller's type, caught by the caller).
    pub fn panicking(data: &'a [u8]) -> Self {
        Self { calls: std::cell::Cell::new(0), first: data, later: data, panics: true }
    }
}

/// Runs `f`; `None` if the simulated caller's panic came out of it (any other panic is passed on).
pub fn catch_caller_crash<T>(f: impl FnOnce() -> T) -> Option<T> {
    match std::panic::catch_unwind(std::panic::AssertUnwindSafe(f)) {
        Ok(v) => Some(v),
        Err(p) if p.is::<CallerCrash>() => None,
        Err(p) => std::panic::resume_unwind(p),
    }
}

impl AsRef<[u8]> for Flaky<'_> {
    fn as_ref(&self) -> &[u8] {
        let n = self.calls.get();
        self.calls.set(n + 1);
        if n == 0 && self.panics {
            std::panic::resume_unwind(Box::new(CallerCrash));
        }
        if n == 0 {
            self.first
        } else {
            self.later
        }
    }
}

// ======================================================================
// ENCODER

pub trait DynEncoder {
    fn add(&mut self, shard: &[u8]) -> Result<(), Error>;
    fn add_flaky(&mut self, shard: &Flaky) -> Result<(), Error>;
    fn encode(&mut self) -> Result<EncoderResult<'_>, Error>;
    fn reset(&mut self, k: usize, r: usize, b: usize) -> Result<(), Error>;
    /// `None` for the `ReedSolomonEncoder` wrapper, which cannot give its work away.
    fn into_work(self: Box<Self>) -> Option<EncoderWork>;
}

struct EncWrap<E: Engine, T: RateEncoder<E>>(T, std::marker::PhantomData<E>);

impl<E: Engine, T: RateEncoder<E>> DynEncoder for EncWrap<E, T> {
    fn add(&mut self, shard: &[u8]) -> Result<(), Error> {
        self.0.add_original_shard(shard)
    }
    fn add_flaky(&mut self, shard: &Flaky) -> Result<(), Error> {
        self.0.add_original_shard(shard)
    }
    fn encode(&mut self) -> Result<EncoderResult<'_>, Error> {
        self.0.encode()
    }
    fn reset(&mut self, k: usize, r: usize, b: usize) -> Result<(), Error> {
        self.0.reset(k, r, b)
    }
    fn into_work(self: Box<Self>) -> Option<EncoderWork> {
        Some(self.0.into_parts().1)
    }
}

impl DynEncoder for ReedSolomonEncoder {
    fn add(&mut self, shard: &[u8]) -> Result<(), Error> {
        self.add_original_shard(shard)
    }
    fn add_flaky(&mut self, shard: &Flaky) -> Result<(), Error> {
        self.add_original_shard(shard)
    }
    fn encode(&mut self) -> Result<EncoderResult<'_>, Error> {
        ReedSolomonEncoder::encode(self)
    }
    fn reset(&mut self, k: usize, r: usize, b: usize) -> Result<(), Error> {
        ReedSolomonEncoder::reset(self, k, r, b)
    }
    fn into_work(self: Box<Self>) -> Option<EncoderWork> {
        None
    }
}

fn enc_new_t<E: MkEngine, T: RateEncoder<E> + 'static>(
    k: usize,
    r: usize,
    b: usize,
    work: Option<EncoderWork>,
) -> Result<Box<dyn DynEncoder>, Error> {
    let engine = E::mk();
    let work = empty_enc_work(work, k, r);
    // only the crate's constructor is an allocation region, not the harness Box or the engine
    let (inner, stats) = simcore::countalloc::measure(|| T::new(k, r, b, engine, work));
    CTOR_STATS.with(|c| c.set(stats));
    Ok(Box::new(EncWrap(inner?, std::marker::PhantomData)))
}

/// Same, through the `Rate::encoder` constructor (documented as the same as `RateEncoder::new`).
fn enc_new_r<E: MkEngine, R: Rate<E>>(k: usize, r: usize, b: usize, work: Option<EncoderWork>) -> Result<Box<dyn DynEncoder>, Error>
where
    R::RateEncoder: 'static,
{
    let engine = E::mk();
    let work = empty_enc_work(work, k, r);
    let (inner, stats) = simcore::countalloc::measure(|| R::encoder(k, r, b, engine, work));
    CTOR_STATS.with(|c| c.set(stats));
    Ok(Box::new(EncWrap(inner?, std::marker::PhantomData)))
}

/// "No working space" is passed as `None`, as a freshly constructed `EncoderWork::new()` or as
/// `EncoderWork::default()` (all documented as equivalent), depending on the configuration.
fn empty_enc_work(work: Option<EncoderWork>, k: usize, r: usize) -> Option<EncoderWork> {
    match (work, (k ^ r) % 3) {
        (Some(w), _) => Some(w),
        (None, 1) => Some(EncoderWork::new()),
        (None, 2) => Some(EncoderWork::default()),
        (None, _) => None,
    }
}

fn empty_dec_work(work: Option<DecoderWork>, k: usize, r: usize) -> Option<DecoderWork> {
    match (work, (k ^ r) % 3) {
        (Some(w), _) => Some(w),
        (None, 1) => Some(DecoderWork::new()),
        (None, 2) => Some(DecoderWork::default()),
        (None, _) => None,
    }
}

/// Which of the two documented constructors is used: a deterministic function of the configuration.
fn via_rate(k: usize, r: usize, b: usize) -> bool {
    (k.wrapping_mul(3) ^ r.wrapping_mul(5) ^ (b / 2)) % 4 == 0
}

/// Constructs an encoder. `work` is ignored (must be `None`) for `Layer::Rs`.
pub fn enc_new(
    kind: Kind,
    k: usize,
    r: usize,
    b: usize,
    work: Option<EncoderWork>,
) -> Result<Box<dyn DynEncoder>, Error> {
    match kind.layer {
        Layer::Rs => {
            let rs = ReedSolomonEncoder::new(k, r, b);
            let twin = DefaultRateEncoder::new(k, r, b, DefaultEngine::new(), None);
            if rs.as_ref().err() != twin.as_ref().err() {
                note_divergence(format!("new({k}, {r}, {b}): ReedSolomonEncoder -> {:?}, DefaultRateEncoder<DefaultEngine> -> {:?}", rs.as_ref().map(|_| ()), twin.as_ref().map(|_| ())));
            }
            match (rs, twin) {
                (Ok(rs), Ok(twin)) => Ok(Box::new(RsEncTwin { rs, twin })),
                (Ok(rs), Err(_)) => Ok(Box::new(rs)),
                (Err(e), _) => Err(e),
            }
        }
        Layer::Default if via_rate(k, r, b) => with_engine!(kind.engine, E => enc_new_r::<E, DefaultRate<E>>(k, r, b, work)),
        Layer::High if via_rate(k, r, b) => with_engine!(kind.engine, E => enc_new_r::<E, HighRate<E>>(k, r, b, work)),
        Layer::Low if via_rate(k, r, b) => with_engine!(kind.engine, E => enc_new_r::<E, LowRate<E>>(k, r, b, work)),
        Layer::Default => {
            with_engine!(kind.engine, E => enc_new_t::<E, DefaultRateEncoder<E>>(k, r, b, work))
        }
        Layer::High => {
            with_engine!(kind.engine, E => enc_new_t::<E, HighRateEncoder<E>>(k, r, b, work))
        }
        Layer::Low => {
            with_engine!(kind.engine, E => enc_new_t::<E, LowRateEncoder<E>>(k, r, b, work))
        }
    }
}

/// Every `supports` entry point this kind has, encoder side (all must agree with R4).
pub fn enc_supports(kind: Kind, k: usize, r: usize) -> Vec<(&'static str, bool)> {
    match kind.layer {
        Layer::Rs => vec![("ReedSolomonEncoder::supports", ReedSolomonEncoder::supports(k, r))],
        Layer::Default => with_engine!(kind.engine, E => vec![
            ("DefaultRate::supports", <DefaultRate<E> as Rate<E>>::supports(k, r)),
            ("DefaultRateEncoder::supports", <DefaultRateEncoder<E> as RateEncoder<E>>::supports(k, r)),
        ]),
        Layer::High => with_engine!(kind.engine, E => vec![
            ("HighRate::supports", <HighRate<E> as Rate<E>>::supports(k, r)),
            ("HighRateEncoder::supports", <HighRateEncoder<E> as RateEncoder<E>>::supports(k, r)),
        ]),
        Layer::Low => with_engine!(kind.engine, E => vec![
            ("LowRate::supports", <LowRate<E> as Rate<E>>::supports(k, r)),
            ("LowRateEncoder::supports", <LowRateEncoder<E> as RateEncoder<E>>::supports(k, r)),
        ]),
    }
}

pub fn enc_validate(kind: Kind, k: usize, r: usize, b: usize) -> Vec<(&'static str, Result<(), Error>)> {
    match kind.layer {
        Layer::Rs => vec![],
        Layer::Default => with_engine!(kind.engine, E => vec![
            ("DefaultRate::validate", <DefaultRate<E> as Rate<E>>::validate(k, r, b)),
            ("DefaultRateEncoder::validate", <DefaultRateEncoder<E> as RateEncoder<E>>::validate(k, r, b)),
        ]),
        Layer::High => with_engine!(kind.engine, E => vec![
            ("HighRate::validate", <HighRate<E> as Rate<E>>::validate(k, r, b)),
            ("HighRateEncoder::validate", <HighRateEncoder<E> as RateEncoder<E>>::validate(k, r, b)),
        ]),
        Layer::Low => with_engine!(kind.engine, E => vec![
            ("LowRate::validate", <LowRate<E> as Rate<E>>::validate(k, r, b)),
            ("LowRateEncoder::validate", <LowRateEncoder<E> as RateEncoder<E>>::validate(k, r, b)),
        ]),
    }
}

// ======================================================================
// DECODER

pub trait DynDecoder {
    fn add_flaky(&mut self, is_rec: bool, index: usize, shard: &Flaky) -> Result<(), Error>;
    fn add_original(&mut self, index: usize, shard: &[u8]) -> Result<(), Error>;
    fn add_recovery(&mut self, index: usize, shard: &[u8]) -> Result<(), Error>;
    fn decode(&mut self) -> Result<DecoderResult<'_>, Error>;
    fn reset(&mut self, k: usize, r: usize, b: usize) -> Result<(), Error>;
    fn into_work(self: Box<Self>) -> Option<DecoderWork>;
}

struct DecWrap<E: Engine, T: RateDecoder<E>>(T, std::marker::PhantomData<E>);

impl<E: Engine, T: RateDecoder<E>> DynDecoder for DecWrap<E, T> {
    fn add_flaky(&mut self, is_rec: bool, index: usize, shard: &Flaky) -> Result<(), Error> {
        if is_rec {
            self.0.add_recovery_shard(index, shard)
        } else {
            self.0.add_original_shard(index, shard)
        }
    }
    fn add_original(&mut self, index: usize, shard: &[u8]) -> Result<(), Error> {
        self.0.add_original_shard(index, shard)
    }
    fn add_recovery(&mut self, index: usize, shard: &[u8]) -> Result<(), Error> {
        self.0.add_recovery_shard(index, shard)
    }
    fn decode(&mut self) -> Result<DecoderResult<'_>, Error> {
        self.0.decode()
    }
    fn reset(&mut self, k: usize, r: usize, b: usize) -> Result<(), Error> {
        self.0.reset(k, r, b)
    }
    fn into_work(self: Box<Self>) -> Option<DecoderWork> {
        Some(self.0.into_parts().1)
    }
}

impl DynDecoder for ReedSolomonDecoder {
    fn add_flaky(&mut self, is_rec: bool, index: usize, shard: &Flaky) -> Result<(), Error> {
        if is_rec {
            self.add_recovery_shard(index, shard)
        } else {
            self.add_original_shard(index, shard)
        }
    }
    fn add_original(&mut self, index: usize, shard: &[u8]) -> Result<(), Error> {
        self.add_original_shard(index, shard)
    }
    fn add_recovery(&mut self, index: usize, shard: &[u8]) -> Result<(), Error> {
        self.add_recovery_shard(index, shard)
    }
    fn decode(&mut self) -> Result<DecoderResult<'_>, Error> {
        ReedSolomonDecoder::decode(self)
    }
    fn reset(&mut self, k: usize, r: usize, b: usize) -> Result<(), Error> {
        ReedSolomonDecoder::reset(self, k, r, b)
    }
    fn into_work(self: Box<Self>) -> Option<DecoderWork> {
        None
    }
}


// ======================================================================
// API LAYER TWINS (C09: ReedSolomonEncoder / ReedSolomonDecoder are DefaultRate codecs on DefaultEngine)

thread_local! {
    static LAYER_DIVERGENCE: std::cell::RefCell<Option<String>> = const { std::cell::RefCell::new(None) };
}

fn note_divergence(what: String) {
    simcore::countalloc::unmeasured(|| LAYER_DIVERGENCE.with(|d| {
        let mut d = d.borrow_mut();
        if d.is_none() {
            *d = Some(what);
        }
    }));
}

/// Installs a pending divergence taken on another thread (a history that continues on this one).
pub fn set_layer_divergence(what: Option<String>) {
    simcore::countalloc::unmeasured(|| LAYER_DIVERGENCE.with(|d| *d.borrow_mut() = what));
}

/// First call on which a `ReedSolomon*` wrapper and the `DefaultRate*<DefaultEngine>` codec fed with the same calls
/// answered differently (cleared by reading).
pub fn take_layer_divergence() -> Option<String> {
    LAYER_DIVERGENCE.with(|d| d.borrow_mut().take())
}

pub fn layer_divergence_pending() -> bool {
    LAYER_DIVERGENCE.with(|d| d.borrow().is_some())
}

/// `ReedSolomonEncoder` plus the codec it is documented to be, driven by the same calls.
struct RsEncTwin {
    rs: ReedSolomonEncoder,
    twin: DefaultRateEncoder<DefaultEngine>,
}

impl DynEncoder for RsEncTwin {
    fn add(&mut self, shard: &[u8]) -> Result<(), Error> {
        let a = self.rs.add_original_shard(shard);
        let b = simcore::countalloc::unmeasured(|| self.twin.add_original_shard(shard));
        if a != b {
            note_divergence(format!("add_original_shard: ReedSolomonEncoder -> {a:?}, DefaultRateEncoder<DefaultEngine> -> {b:?}"));
        }
        a
    }
    fn add_flaky(&mut self, shard: &Flaky) -> Result<(), Error> {
        let copy = shard.fresh_copy();
        let a = self.rs.add_original_shard(shard);
        let b = simcore::countalloc::unmeasured(|| self.twin.add_original_shard(&copy));
        if a != b {
            note_divergence(format!("add_original_shard(impure shard): ReedSolomonEncoder -> {a:?}, DefaultRateEncoder<DefaultEngine> -> {b:?}"));
        }
        a
    }
    fn encode(&mut self) -> Result<EncoderResult<'_>, Error> {
        let Self { rs, twin } = self;
        let b: Result<Vec<Vec<u8>>, Error> = simcore::countalloc::unmeasured(|| twin.encode().map(|res| res.recovery_iter().map(<[u8]>::to_vec).collect()));
        let a = rs.encode();
        match (&a, &b) {
            (Ok(x), Ok(y)) => {
                if simcore::countalloc::unmeasured(|| x.recovery_iter().map(<[u8]>::to_vec).collect::<Vec<_>>() != *y) {
                    note_divergence("encode: ReedSolomonEncoder and DefaultRateEncoder<DefaultEngine> return different recovery shards".into());
                }
            }
            (Err(x), Err(y)) if x == y => {}
            _ => note_divergence(format!("encode: ReedSolomonEncoder -> {:?}, DefaultRateEncoder<DefaultEngine> -> {:?}", a.as_ref().map(|_| "Ok"), b.as_ref().map(|_| "Ok"))),
        }
        a
    }
    fn reset(&mut self, k: usize, r: usize, b: usize) -> Result<(), Error> {
        let a = self.rs.reset(k, r, b);
        let t = simcore::countalloc::unmeasured(|| self.twin.reset(k, r, b));
        if a != t {
            note_divergence(format!("reset({k}, {r}, {b}): ReedSolomonEncoder -> {a:?}, DefaultRateEncoder<DefaultEngine> -> {t:?}"));
        }
        a
    }
    fn into_work(self: Box<Self>) -> Option<EncoderWork> {
        None
    }
}

/// `ReedSolomonDecoder` plus the codec it is documented to be, driven by the same calls.
struct RsDecTwin {
    rs: ReedSolomonDecoder,
    twin: DefaultRateDecoder<DefaultEngine>,
}

impl DynDecoder for RsDecTwin {
    fn add_flaky(&mut self, is_rec: bool, index: usize, shard: &Flaky) -> Result<(), Error> {
        let copy = shard.fresh_copy();
        let (a, b) = if is_rec {
            (self.rs.add_recovery_shard(index, shard), simcore::countalloc::unmeasured(|| self.twin.add_recovery_shard(index, &copy)))
        } else {
            (self.rs.add_original_shard(index, shard), simcore::countalloc::unmeasured(|| self.twin.add_original_shard(index, &copy)))
        };
        if a != b {
            note_divergence(format!("add of an impure shard at {index}: ReedSolomonDecoder -> {a:?}, DefaultRateDecoder<DefaultEngine> -> {b:?}"));
        }
        a
    }
    fn add_original(&mut self, index: usize, shard: &[u8]) -> Result<(), Error> {
        let a = self.rs.add_original_shard(index, shard);
        let b = simcore::countalloc::unmeasured(|| self.twin.add_original_shard(index, shard));
        if a != b {
            note_divergence(format!("add_original_shard({index}): ReedSolomonDecoder -> {a:?}, DefaultRateDecoder<DefaultEngine> -> {b:?}"));
        }
        a
    }
    fn add_recovery(&mut self, index: usize, shard: &[u8]) -> Result<(), Error> {
        let a = self.rs.add_recovery_shard(index, shard);
        let b = simcore::countalloc::unmeasured(|| self.twin.add_recovery_shard(index, shard));
        if a != b {
            note_divergence(format!("add_recovery_shard({index}): ReedSolomonDecoder -> {a:?}, DefaultRateDecoder<DefaultEngine> -> {b:?}"));
        }
        a
    }
    fn decode(&mut self) -> Result<DecoderResult<'_>, Error> {
        let Self { rs, twin } = self;
        let b: Result<Vec<(usize, Vec<u8>)>, Error> = simcore::countalloc::unmeasured(|| twin.decode().map(|res| res.restored_original_iter().map(|(i, s)| (i, s.to_vec())).collect()));
        let a = rs.decode();
        match (&a, &b) {
            (Ok(x), Ok(y)) => {
                // (bounded: an iterator that never ends is the result probe's business)
                if simcore::countalloc::unmeasured(|| x.restored_original_iter().take(y.len() + 1).map(|(i, s)| (i, s.to_vec())).collect::<Vec<_>>() != *y) {
                    note_divergence("decode: ReedSolomonDecoder and DefaultRateDecoder<DefaultEngine> restore different shards".into());
                }
            }
            (Err(x), Err(y)) if x == y => {}
            _ => note_divergence(format!("decode: ReedSolomonDecoder -> {:?}, DefaultRateDecoder<DefaultEngine> -> {:?}", a.as_ref().map(|_| "Ok"), b.as_ref().map(|_| "Ok"))),
        }
        a
    }
    fn reset(&mut self, k: usize, r: usize, b: usize) -> Result<(), Error> {
        let a = self.rs.reset(k, r, b);
        let t = simcore::countalloc::unmeasured(|| self.twin.reset(k, r, b));
        if a != t {
            note_divergence(format!("reset({k}, {r}, {b}): ReedSolomonDecoder -> {a:?}, DefaultRateDecoder<DefaultEngine> -> {t:?}"));
        }
        a
    }
    fn into_work(self: Box<Self>) -> Option<DecoderWork> {
        None
    }
}

fn dec_new_t<E: MkEngine, T: RateDecoder<E> + 'static>(
    k: usize,
    r: usize,
    b: usize,
    work: Option<DecoderWork>,
) -> Result<Box<dyn DynDecoder>, Error> {
    let engine = E::mk();
    let work = empty_dec_work(work, k, r);
    let (inner, stats) = simcore::countalloc::measure(|| T::new(k, r, b, engine, work));
    CTOR_STATS.with(|c| c.set(stats));
    Ok(Box::new(DecWrap(inner?, std::marker::PhantomData)))
}

fn dec_new_r<E: MkEngine, R: Rate<E>>(k: usize, r: usize, b: usize, work: Option<DecoderWork>) -> Result<Box<dyn DynDecoder>, Error>
where
    R::RateDecoder: 'static,
{
    let engine = E::mk();
    let work = empty_dec_work(work, k, r);
    let (inner, stats) = simcore::countalloc::measure(|| R::decoder(k, r, b, engine, work));
    CTOR_STATS.with(|c| c.set(stats));
    Ok(Box::new(DecWrap(inner?, std::marker::PhantomData)))
}

pub fn dec_new(
    kind: Kind,
    k: usize,
    r: usize,
    b: usize,
    work: Option<DecoderWork>,
) -> Result<Box<dyn DynDecoder>, Error> {
    match kind.layer {
        Layer::Rs => {
            let rs = ReedSolomonDecoder::new(k, r, b);
            let twin = DefaultRateDecoder::new(k, r, b, DefaultEngine::new(), None);
            if rs.as_ref().err() != twin.as_ref().err() {
                note_divergence(format!("new({k}, {r}, {b}): ReedSolomonDecoder -> {:?}, DefaultRateDecoder<DefaultEngine> -> {:?}", rs.as_ref().map(|_| ()), twin.as_ref().map(|_| ())));
            }
            match (rs, twin) {
                (Ok(rs), Ok(twin)) => Ok(Box::new(RsDecTwin { rs, twin })),
                (Ok(rs), Err(_)) => Ok(Box::new(rs)),
                (Err(e), _) => Err(e),
            }
        }
        Layer::Default if via_rate(k, r, b) => with_engine!(kind.engine, E => dec_new_r::<E, DefaultRate<E>>(k, r, b, work)),
        Layer::High if via_rate(k, r, b) => with_engine!(kind.engine, E => dec_new_r::<E, HighRate<E>>(k, r, b, work)),
        Layer::Low if via_rate(k, r, b) => with_engine!(kind.engine, E => dec_new_r::<E, LowRate<E>>(k, r, b, work)),
        Layer::Default => {
            with_engine!(kind.engine, E => dec_new_t::<E, DefaultRateDecoder<E>>(k, r, b, work))
        }
        Layer::High => {
            with_engine!(kind.engine, E => dec_new_t::<E, HighRateDecoder<E>>(k, r, b, work))
        }
        Layer::Low => {
            with_engine!(kind.engine, E => dec_new_t::<E, LowRateDecoder<E>>(k, r, b, work))
        }
    }
}

pub fn dec_supports(kind: Kind, k: usize, r: usize) -> Vec<(&'static str, bool)> {
    match kind.layer {
        Layer::Rs => vec![("ReedSolomonDecoder::supports", ReedSolomonDecoder::supports(k, r))],
        Layer::Default => with_engine!(kind.engine, E => vec![
            ("DefaultRate::supports", <DefaultRate<E> as Rate<E>>::supports(k, r)),
            ("DefaultRateDecoder::supports", <DefaultRateDecoder<E> as RateDecoder<E>>::supports(k, r)),
        ]),
        Layer::High => with_engine!(kind.engine, E => vec![
            ("HighRate::supports", <HighRate<E> as Rate<E>>::supports(k, r)),
            ("HighRateDecoder::supports", <HighRateDecoder<E> as RateDecoder<E>>::supports(k, r)),
        ]),
        Layer::Low => with_engine!(kind.engine, E => vec![
            ("LowRate::supports", <LowRate<E> as Rate<E>>::supports(k, r)),
            ("LowRateDecoder::supports", <LowRateDecoder<E> as RateDecoder<E>>::supports(k, r)),
        ]),
    }
}

pub fn dec_validate(kind: Kind, k: usize, r: usize, b: usize) -> Vec<(&'static str, Result<(), Error>)> {
    match kind.layer {
        Layer::Rs => vec![],
        Layer::Default => with_engine!(kind.engine, E => vec![
            ("DefaultRate::validate", <DefaultRate<E> as Rate<E>>::validate(k, r, b)),
            ("DefaultRateDecoder::validate", <DefaultRateDecoder<E> as RateDecoder<E>>::validate(k, r, b)),
        ]),
        Layer::High => with_engine!(kind.engine, E => vec![
            ("HighRate::validate", <HighRate<E> as Rate<E>>::validate(k, r, b)),
            ("HighRateDecoder::validate", <HighRateDecoder<E> as RateDecoder<E>>::validate(k, r, b)),
        ]),
        Layer::Low => with_engine!(kind.engine, E => vec![
            ("LowRate::validate", <LowRate<E> as Rate<E>>::validate(k, r, b)),
            ("LowRateDecoder::validate", <LowRateDecoder<E> as RateDecoder<E>>::validate(k, r, b)),
        ]),
    }
}

/// `Rate::encoder` / `Rate::decoder` constructors (documented as the same as `new`).
pub fn rate_encoder_ok(kind: Kind, k: usize, r: usize, b: usize) -> Option<Result<(), Error>> {
    match kind.layer {
        Layer::Rs => None,
        Layer::Default => with_engine!(kind.engine, E => Some(<DefaultRate<E> as Rate<E>>::encoder(k, r, b, E::mk(), None).map(|_| ()))),
        Layer::High => with_engine!(kind.engine, E => Some(<HighRate<E> as Rate<E>>::encoder(k, r, b, E::mk(), None).map(|_| ()))),
        Layer::Low => with_engine!(kind.engine, E => Some(<LowRate<E> as Rate<E>>::encoder(k, r, b, E::mk(), None).map(|_| ()))),
    }
}

pub fn rate_decoder_ok(kind: Kind, k: usize, r: usize, b: usize) -> Option<Result<(), Error>> {
    match kind.layer {
        Layer::Rs => None,
        Layer::Default => with_engine!(kind.engine, E => Some(<DefaultRate<E> as Rate<E>>::decoder(k, r, b, E::mk(), None).map(|_| ()))),
        Layer::High => with_engine!(kind.engine, E => Some(<HighRate<E> as Rate<E>>::decoder(k, r, b, E::mk(), None).map(|_| ()))),
        Layer::Low => with_engine!(kind.engine, E => Some(<LowRate<E> as Rate<E>>::decoder(k, r, b, E::mk(), None).map(|_| ()))),
    }
}
