//! Sim J: shards of 4 GiB and more (thorough tier of C04 only, release profile, one trial at a time: a trial needs about
//! 13 GiB and 15-30 s, and is skipped when less than 28 GiB of memory are available).
//! One original shard of 2^32 + t bytes (t in {2, 34, 64, 66}: with and without a partial last block) is encoded
//! and decoded; the oracle is slot independence itself: every probed 64-byte block (and the partial last block)
//! of the outputs must equal what the same codec produces for that block coded on its own as a short shard.

use simcore::prng::Prng;
use simcore::Chooser;

use crate::codec::*;
use crate::common::*;
use crate::ev;

/// One trial at a time per process (13 GiB each).
static ONE_AT_A_TIME: std::sync::Mutex<()> = std::sync::Mutex::new(());

pub fn run_jumbo(ch: &mut Chooser, ctx: &mut Ctx) {
    let _turn = ONE_AT_A_TIME.lock().unwrap_or_else(std::sync::PoisonError::into_inner);
    // opportunistic: only when the machine has room for it right now (a trial that dies for lack of memory would look
    // like a crash of the code under test); the evidence says how many trials ran and how many were skipped
    let available_kib = std::fs::read_to_string("/proc/meminfo")
        .ok()
        .and_then(|m| m.lines().find_map(|l| l.strip_prefix("MemAvailable:").and_then(|v| v.trim().trim_end_matches("kB").trim().parse::<u64>().ok())))
        .unwrap_or(0);
    if available_kib < 28 * 1024 * 1024 {
        ctx.count("probe.jumbo_trials_skipped_for_lack_of_memory");
        ev!(ctx, "jumbo stripe skipped: only {available_kib} KiB of memory available");
        return;
    }
    let tail = [34usize, 2, 66, 34, 2, 66, 64][ch.pick_usize("jumbo.tail", 7)]; // mostly with a partial last block
    let b = (1usize << 32) + tail;
    let layer = [Layer::Default, Layer::High, Layer::Low][ch.pick_usize("jumbo.layer", 3)]; // (not the wrapper: its API-layer twin would double the memory)
    let engine = if ch.chance("jumbo.nosimd", 1, 3) && layer != Layer::Rs { EngineKind::NoSimd } else { EngineKind::Default };
    let kind = Kind { layer, engine };
    let (k, r) = (1usize, 1usize);
    ev!(ctx, "jumbo stripe: {} ({k}, {r}, {b})", kind.name());
    ctx.hash.feed_u64(b as u64 ^ (layer as u64) << 40);
    ctx.count("probe.shards_of_4_GiB_and_more");

    // which blocks carry data (everything else is zero): the first two, two in the middle, the last full one and the tail
    let full_blocks = b / 64;
    let last_len = b % 64;
    let mut probes: Vec<usize> = vec![0, 1, full_blocks / 2, (1usize << 26) - 1, 1usize << 26, full_blocks - 1];
    if last_len > 0 {
        probes.push(full_blocks);
    }
    let mut p = Prng::new(ch.seed64("jumbo.data"));
    let mut original = vec![0u8; b];
    for &blk in &probes {
        let end = ((blk + 1) * 64).min(b);
        p.fill(&mut original[blk * 64..end]);
    }

    // what the same codec makes of one block on its own
    let small = |ctx: &mut Ctx, data: &[u8]| -> Option<Vec<u8>> {
        let len = data.len();
        let out = ctx.shadow(|| -> Result<Vec<u8>, reed_solomon_simd::Error> {
            let mut enc = enc_new(kind, k, r, len, None)?;
            enc.add(data)?;
            let res = enc.encode()?;
            Ok(res.recovery(0).map(<[u8]>::to_vec).unwrap_or_default())
        });
        match out {
            Ok(Ok(v)) => Some(v),
            _ => None,
        }
    };

    // ---- encode
    let made = ctx.guarded(false, || enc_new(kind, k, r, b, None));
    let mut enc = match made {
        Ok(Ok(e)) => e,
        Ok(Err(e)) => {
            ctx.viol(&["C04", "C06", "C08"], "verdict", "verdict/new/jumbo".into(), format!("{}::new({k}, {r}, {b}) returned Err({e:?}) for a valid configuration", kind.name()), true);
            return;
        }
        Err(msg) => {
            ctx.viol(&["C04", "C06"], "no-panic", format!("panic/new/{}", panic_sig(&msg)), format!("{}::new({k}, {r}, {b}) panicked: {msg}", kind.name()), true);
            return;
        }
    };
    let encoded = ctx.guarded(false, || -> Result<Vec<u8>, reed_solomon_simd::Error> {
        enc.add(&original)?;
        let res = enc.encode()?;
        let rec = res.recovery(0).map(<[u8]>::to_vec).unwrap_or_default();
        Ok(rec)
    });
    drop(enc);
    let recovery = match encoded {
        Ok(Ok(v)) => v,
        Ok(Err(e)) => {
            ctx.viol(&["C04", "C06"], "verdict", "verdict/encode/jumbo".into(), format!("{}({k}, {r}, {b}): a valid round returned Err({e:?})", kind.name()), true);
            return;
        }
        Err(msg) => {
            ctx.viol(&["C04", "C06"], "no-panic", format!("panic/encode/{}", panic_sig(&msg)), format!("{}({k}, {r}, {b}): a valid round panicked: {msg}", kind.name()), true);
            return;
        }
    };
    if recovery.len() != b {
        ctx.viol(&["C04", "C12"], "slot-independence", "slot/jumbo-length".into(), format!("{}({k}, {r}, {b}): the recovery shard has {} bytes", kind.name(), recovery.len()), true);
        return;
    }
    for &blk in &probes {
        let end = ((blk + 1) * 64).min(b);
        let Some(want) = small(ctx, &original[blk * 64..end]) else { continue };
        ctx.count("c04.jumbo_blocks_compared");
        if recovery[blk * 64..end] != want[..] {
            ctx.viol(&["C04"], "slot-independence", "slot/jumbo-encode".into(), format!("{}({k}, {r}, {b}): block {blk} of the recovery shard ({} bytes at offset {}) differs from the same block coded on its own as a {}-byte shard", kind.name(), end - blk * 64, blk * 64, end - blk * 64), true);
            return;
        }
    }
    // a zero block far from every probe must stay zero (the code is linear and slot-wise)
    let quiet = full_blocks / 3;
    if recovery[quiet * 64..quiet * 64 + 64].iter().any(|x| *x != 0) {
        ctx.viol(&["C04"], "slot-independence", "slot/jumbo-leak".into(), format!("{}({k}, {r}, {b}): block {quiet} of the recovery shard is not zero although that block of the original is", kind.name()), true);
        return;
    }

    // ---- decode: the original is lost, the recovery shard is given
    let made = ctx.guarded(false, || dec_new(kind, k, r, b, None));
    let mut dec = match made {
        Ok(Ok(d)) => d,
        Ok(Err(e)) => {
            ctx.viol(&["C04", "C06", "C08"], "verdict", "verdict/new/jumbo".into(), format!("{} decoder new({k}, {r}, {b}) returned Err({e:?}) for a valid configuration", kind.name()), true);
            return;
        }
        Err(msg) => {
            ctx.viol(&["C04", "C06"], "no-panic", format!("panic/new/{}", panic_sig(&msg)), format!("{} decoder new({k}, {r}, {b}) panicked: {msg}", kind.name()), true);
            return;
        }
    };
    let decoded = ctx.guarded(false, || -> Result<Option<String>, reed_solomon_simd::Error> {
        dec.add_recovery(0, &recovery)?;
        let res = dec.decode()?;
        let Some(restored) = res.restored_original(0) else { return Ok(Some("restored_original(0) is None".into())) };
        if restored.len() != b {
            return Ok(Some(format!("the restored shard has {} bytes", restored.len())));
        }
        for &blk in &probes {
            let end = ((blk + 1) * 64).min(b);
            if restored[blk * 64..end] != original[blk * 64..end] {
                return Ok(Some(format!("block {blk} of the restored original (offset {}) differs from the encoded original", blk * 64)));
            }
        }
        if restored[quiet * 64..quiet * 64 + 64].iter().any(|x| *x != 0) {
            return Ok(Some(format!("block {quiet} of the restored original is not zero")));
        }
        Ok(None)
    });
    match decoded {
        Ok(Ok(None)) => ctx.count("c04.jumbo_round_trips"),
        Ok(Ok(Some(why))) => {
            ctx.viol(&["C04", "C01"], "restores-original-bytes", "restore/jumbo".into(), format!("{}({k}, {r}, {b}): {why}", kind.name()), true);
        }
        Ok(Err(e)) => {
            ctx.viol(&["C04", "C06"], "verdict", "verdict/decode/jumbo".into(), format!("{}({k}, {r}, {b}): a valid decode round returned Err({e:?})", kind.name()), true);
        }
        Err(msg) => {
            ctx.viol(&["C04", "C06"], "no-panic", format!("panic/decode/{}", panic_sig(&msg)), format!("{}({k}, {r}, {b}): a valid decode round panicked: {msg}", kind.name()), true);
        }
    }
}
