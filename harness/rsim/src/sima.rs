//! Sim A - stripe store (placeholder until implemented).
use crate::common::Ctx;
use simcore::Chooser;
pub fn run_store(_ch: &mut Chooser, _ctx: &mut Ctx) {}
pub fn run_corner(_ch: &mut Chooser, _ctx: &mut Ctx) {}
