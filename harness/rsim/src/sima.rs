//! Sim A - an erasure-coded stripe store under network, node and disk faults.
//!
//! Discrete-event simulation (simulated clock only). Writers, storage nodes, readers, network, disks
//! are stubs; every codec object is the real crate, long-lived across stripes, on a simulated machine
//! with its own engine, CPU mask and poison.

use std::cmp::Reverse;
use std::collections::{BTreeMap, BTreeSet, BinaryHeap, VecDeque};

use reed_solomon_simd::rate::{DecoderWork, EncoderWork};
use reed_solomon_simd::Error;
use simcore::envelope::{self, Family};
use simcore::prng::Prng;
use simcore::Chooser;

use crate::codec::*;
use crate::common::*;
use crate::ev;
use crate::oracles::*;
use crate::simb::{gen_engine, lockstep_check, report_panic, verdict_props};

// ======================================================================
// World

#[derive(Clone, Copy, Debug, PartialEq, Eq)]
enum Pref {
    Rs,
    Default,
    Dedicated,
}

struct Machine {
    pref: Pref,
    engine: EngineKind,
    mask: u32,
    poison_mode: u8,
}

impl Machine {
    fn gen(ch: &mut Chooser) -> Self {
        let pref = [Pref::Dedicated, Pref::Default, Pref::Rs][ch.weighted("node.pref", &[3, 3, 2])];
        let engine = if pref == Pref::Rs { EngineKind::Default } else { gen_engine(ch) };
        // CPU mask of this machine: bit0 avx2, bit1 ssse3 (only narrows real detection)
        let mask = match ch.weighted("node.mask", &[4, 1, 1, 1]) {
            0 => u32::MAX,
            1 => !1u32,      // no avx2
            2 => !2u32,      // no ssse3 (avx2 still wins)
            _ => !3u32,      // neither: portable
        };
        Self { pref, engine, mask, poison_mode: ch.weighted("node.poison", &[1, 5, 1]) as u8 }
    }
    /// The codec kind this machine uses for a stripe of the given rate.
    fn kind_for(&self, k: usize, r: usize, high: bool) -> Kind {
        let default_ok = envelope::default_supported(k, r) && envelope::default_is_high(k, r) == high;
        match self.pref {
            Pref::Rs if default_ok => Kind { layer: Layer::Rs, engine: EngineKind::Default },
            Pref::Default if default_ok => Kind { layer: Layer::Default, engine: self.engine },
            _ => Kind { layer: Layer::dedicated(high), engine: self.engine },
        }
    }
}

struct Writer {
    m: Machine,
    obj: Option<(Kind, Box<dyn DynEncoder>)>,
    pool: Vec<EncoderWork>,
    rounds: u32,
}

struct Reader {
    m: Machine,
    obj: Option<(Kind, Box<dyn DynDecoder>)>,
    pool: Vec<DecoderWork>,
    rounds: u32,
    busy: Option<usize>,
    queue: VecDeque<usize>,
    partitioned: BTreeSet<usize>,
}

#[derive(Clone)]
struct Stored {
    index_field: usize,
    data: Vec<u8>,
    checksum: u64,
    synced: bool,
}

struct Node {
    up: bool,
    disk: BTreeMap<(usize, bool, usize), Stored>,
}

struct StripeRec {
    high: bool,
    k: usize,
    r: usize,
    b: usize,
    originals: Vec<Vec<u8>>,
    recovery: Vec<Vec<u8>>,
    put_done: bool,
}

fn checksum(is_rec: bool, data: &[u8]) -> u64 {
    let mut h = simcore::prng::LogHash::default();
    h.feed_u64(u64::from(is_rec));
    h.feed_bytes(data);
    h.0 ^ h.1.rotate_left(17)
}

#[derive(Clone, Debug)]
struct Delivered {
    is_rec: bool,
    true_index: usize,
    index_field: usize,
    data: Vec<u8>,
    checksum: u64,
}

#[derive(Clone, Copy, PartialEq, Eq, Debug)]
enum Policy {
    Asap,
    Stragglers,
    Eager,
}

struct Get {
    stripe: usize,
    reader: usize,
    policy: Policy,
    given_o: Vec<bool>,
    given_r: Vec<bool>,
    n_o: usize,
    n_r: usize,
    adds: Vec<Add>,
    raw: Vec<Delivered>,
    failed_round: bool,
    started: bool,
    done: bool,
    ok: bool,
    attempts: u32,
    final_phase: bool,
    inversions: u64,
    last_pos: usize,
}

enum Event {
    Put(usize),
    StoreArrive { node: usize, stripe: usize, is_rec: bool, idx: usize },
    Crash(usize),
    Restart(usize),
    GetStart(usize),
    ShardArrive { get: usize, shard: Delivered },
    Deadline { get: usize, attempt: u32 },
    Partition { reader: usize },
    Heal { reader: usize },
}

struct Knobs {
    p_loss: u64,
    p_dup: u64,
    jitter: u64,
    p_crash: u64,
    p_partition: u64,
    p_rot: u64,
    p_torn: u64,
    p_misdirect: u64,
    verify_len: bool,
    verify_index: bool,
    p_sync: u64,
    /// 0: shard j on node j mod S (strided); w > 0: blocks of w consecutive shards per node
    placement_block: usize,
}

struct World {
    now: u64,
    seq: u64,
    queue: BinaryHeap<Reverse<(u64, u64)>>,
    events: BTreeMap<u64, Event>,
    net: Prng,
    knobs: Knobs,
    faults_on: bool,
    nodes: Vec<Node>,
    writers: Vec<Writer>,
    readers: Vec<Reader>,
    stripes: Vec<StripeRec>,
    gets: Vec<Get>,
}

impl World {
    fn at(&mut self, delay: u64, e: Event) {
        self.seq += 1;
        self.queue.push(Reverse((self.now + delay, self.seq)));
        self.events.insert(self.seq, e);
    }
    fn latency(&mut self) -> u64 {
        1000 + if self.knobs.jitter > 0 { self.net.below(self.knobs.jitter) } else { 0 }
    }
    fn roll(&mut self, pct: u64) -> bool {
        self.faults_on && pct > 0 && self.net.below(100) < pct
    }
}

// ======================================================================
// Run

pub fn run_store(ch: &mut Chooser, ctx: &mut Ctx) {
    let pick = |ch: &mut Chooser, site: &'static str, vals: &[u64]| vals[ch.pick_usize(site, vals.len())];
    let knobs = Knobs {
        p_loss: pick(ch, "knob.loss", &[0, 2, 10, 30]),
        p_dup: pick(ch, "knob.dup", &[0, 5, 25]),
        jitter: pick(ch, "knob.jitter", &[0, 500, 20_000, 200_000]),
        p_crash: pick(ch, "knob.crash", &[0, 0, 10, 40]),
        p_partition: pick(ch, "knob.partition", &[0, 0, 30]),
        p_rot: pick(ch, "knob.rot", &[0, 0, 5]),
        p_torn: pick(ch, "knob.torn", &[0, 0, 8]),
        p_misdirect: pick(ch, "knob.misdirect", &[0, 0, 8]),
        verify_len: !ch.chance("knob.buggify_len", 1, 2),
        verify_index: !ch.chance("knob.buggify_index", 1, 2),
        p_sync: pick(ch, "knob.sync", &[100, 90, 50]),
        placement_block: pick(ch, "knob.placement", &[0, 0, 8, 16, 32, 64]) as usize,
    };
    let n_nodes = 3 + ch.pick_usize("world.nodes", 10);
    let n_writers = 1 + ch.pick_usize("world.writers", 3);
    let n_readers = 1 + ch.pick_usize("world.readers", 3);
    let mut w = World {
        now: 0,
        seq: 0,
        queue: BinaryHeap::new(),
        events: BTreeMap::new(),
        net: Prng::new(ch.seed64("world.netseed")),
        knobs,
        faults_on: true,
        nodes: (0..n_nodes).map(|_| Node { up: true, disk: BTreeMap::new() }).collect(),
        writers: (0..n_writers).map(|_| Writer { m: Machine::gen(ch), obj: None, pool: Vec::new(), rounds: 0 }).collect(),
        readers: (0..n_readers)
            .map(|_| Reader { m: Machine::gen(ch), obj: None, pool: Vec::new(), rounds: 0, busy: None, queue: VecDeque::new(), partitioned: BTreeSet::new() })
            .collect(),
        stripes: Vec::new(),
        gets: Vec::new(),
    };
    ctx.arm_poison(ch.seed64("poison.seed"), 1);
    ev!(ctx, "store: {n_nodes} nodes, {n_writers} writers, {n_readers} readers; loss {}% dup {}% jitter {}us crash {}% partition {}% rot {}% torn {}% misdirect {}% verify_len={} verify_index={} sync {}%",
        w.knobs.p_loss, w.knobs.p_dup, w.knobs.jitter, w.knobs.p_crash, w.knobs.p_partition, w.knobs.p_rot, w.knobs.p_torn, w.knobs.p_misdirect, w.knobs.verify_len, w.knobs.verify_index, w.knobs.p_sync);
    for (i, m) in w.writers.iter().map(|x| &x.m).chain(w.readers.iter().map(|x| &x.m)).enumerate() {
        ev!(ctx, "  machine {i}: {:?} engine {} cpu mask {:#x} poison {}", m.pref, m.engine.name(), m.mask & 3, m.poison_mode);
    }

    // workload: PUTs then GETs at seeded times
    let n_stripes = 1 + ch.pick_usize("work.stripes", 5);
    for s in 0..n_stripes {
        let fam = [Family::Default, Family::High, Family::Low][ch.weighted("stripe.fam", &[2, 1, 1])];
        let scale = ch.weighted("stripe.scale", &[80, 18, 2]) as u8;
        // one stripe in eighty consists of a few long shards (16 KiB .. 1 MiB)
        let big = ch.chance("stripe.big", 1, 80);
        let (k, r) = gen_counts(ch, fam, if big { 4 } else { scale });
        let high = envelope::effective_high(fam, k, r);
        let b = if big { gen_bytes_big(ch) } else { gen_bytes(ch, if scale == 2 { 66 } else { 258 }) };
        let data_seed = ch.seed64("stripe.data");
        let data_mode = ch.weighted("stripe.datamode", &[8, 1, 1, 3, 3]) as u8;
        let originals: Vec<Vec<u8>> = (0..k).map(|i| gen_shard(data_seed, data_mode, i, b)).collect();
        w.stripes.push(StripeRec { high, k, r, b, originals, recovery: Vec::new(), put_done: false });
        let t_put = ch.pick("work.put_at", 400_000);
        w.at(t_put, Event::Put(s));
        let n_gets = 1 + ch.pick_usize("work.gets", 3);
        for _ in 0..n_gets {
            let reader = ch.pick_usize("work.reader", n_readers);
            let policy = [Policy::Asap, Policy::Stragglers, Policy::Eager][ch.weighted("work.policy", &[3, 2, 2])];
            let g = w.gets.len();
            w.gets.push(new_get(&w.stripes[s], s, reader, policy, false));
            let t_get = t_put + 1000 + ch.pick("work.get_after", 600_000);
            w.at(t_get, Event::GetStart(g));
        }
        if w.knobs.p_crash > 0 && ch.chance("work.crash", w.knobs.p_crash, 100) {
            let node = ch.pick_usize("work.crash_node", n_nodes);
            let t = t_put + ch.pick("work.crash_at", 300_000);
            w.at(t, Event::Crash(node));
            w.at(t + 50_000 + ch.pick("work.restart_after", 500_000), Event::Restart(node));
        }
        if w.knobs.p_partition > 0 && ch.chance("work.partition", w.knobs.p_partition, 100) {
            let reader = ch.pick_usize("work.part_reader", n_readers);
            let t = t_put + ch.pick("work.part_at", 600_000);
            w.at(t, Event::Partition { reader });
            w.at(t + 20_000 + ch.pick("work.heal_after", 400_000), Event::Heal { reader });
        }
    }

    // main phase
    let budget = 30_000 + 40 * w.stripes.iter().map(|s| s.k + s.r).sum::<usize>();
    if pump(ch, ctx, &mut w, budget) {
        return;
    }

    // quiesce: faults stop, everything heals, then every stripe must be readable if >= k shards are durable
    w.faults_on = false;
    for n in &mut w.nodes {
        n.up = true;
    }
    for r in &mut w.readers {
        r.partitioned.clear();
    }
    ev!(ctx, "t={} quiesce: faults off, all nodes up, partitions healed", w.now);
    let mut finals = Vec::new();
    for s in 0..w.stripes.len() {
        if !w.stripes[s].put_done {
            continue;
        }
        let reader = ch.pick_usize("final.reader", n_readers);
        let g = w.gets.len();
        w.gets.push(new_get(&w.stripes[s], s, reader, Policy::Asap, true));
        w.at(1000, Event::GetStart(g));
        finals.push(g);
    }
    let t_quiesce = w.now;
    if pump(ch, ctx, &mut w, budget) {
        return;
    }
    for g in finals {
        let s = w.gets[g].stripe;
        let st = &w.stripes[s];
        // durable, intact, correctly labelled shards
        let mut durable = 0usize;
        for node in &w.nodes {
            for ((stripe, is_rec, idx), sh) in &node.disk {
                if *stripe == s && sh.index_field == *idx && sh.data.len() == st.b && sh.checksum == checksum(*is_rec, &sh.data) {
                    durable += 1;
                }
            }
        }
        ctx.count("sim.final_gets");
        if durable >= st.k {
            ctx.count("probe.final_get_with_enough_durable");
            if !w.gets[g].ok {
                ctx.viol(
                    &["C01"],
                    "bounded-liveness",
                    "liveness/final-get".into(),
                    format!("after the last fault and a heal, stripe {s} ({},{},{}) has {durable} >= k durable shards but the GET did not complete within {} simulated us", st.k, st.r, st.b, w.now - t_quiesce),
                    false,
                );
                return;
            }
        } else {
            ctx.count("probe.final_get_unavailable");
        }
    }
    ctx.count_n("sim.simulated_ms", w.now / 1000);
    let inv: u64 = w.gets.iter().map(|g| g.inversions).sum();
    ctx.count_n("fault.F3.inversions", inv);
}

fn new_get(st: &StripeRec, stripe: usize, reader: usize, policy: Policy, final_phase: bool) -> Get {
    Get {
        stripe,
        reader,
        policy,
        given_o: vec![false; st.k],
        given_r: vec![false; st.r],
        n_o: 0,
        n_r: 0,
        adds: Vec::new(),
        raw: Vec::new(),
        failed_round: false,
        started: false,
        done: false,
        ok: false,
        attempts: 0,
        final_phase,
        inversions: 0,
        last_pos: 0,
    }
}

/// Processes events until the queue is empty or the step budget is used up. Returns `true` to stop the run.
fn pump(ch: &mut Chooser, ctx: &mut Ctx, w: &mut World, max_steps: usize) -> bool {
    let mut steps = 0;
    while let Some(Reverse((t, seq))) = w.queue.pop() {
        steps += 1;
        if steps > max_steps {
            // a harness bound, not a property: end the run without judging liveness
            ctx.count("sim.step_budget_exhausted");
            return true;
        }
        w.now = t;
        let Some(e) = w.events.remove(&seq) else { continue };
        ctx.count("sim.events");
        let stop = match e {
            Event::Put(s) => do_put(ch, ctx, w, s),
            Event::StoreArrive { node, stripe, is_rec, idx } => {
                store_arrive(ctx, w, node, stripe, is_rec, idx);
                false
            }
            Event::Crash(n) => {
                if w.nodes[n].up {
                    let before = w.nodes[n].disk.len();
                    w.nodes[n].disk.retain(|_, s| s.synced);
                    w.nodes[n].up = false;
                    let lost = before - w.nodes[n].disk.len();
                    ctx.count("fault.F4.crashes");
                    ctx.count_n("fault.F4.shards_lost_to_crash", lost as u64);
                    ev!(ctx, "t={t} node {n} crashes, {lost} un-synced shards vanish");
                }
                false
            }
            Event::Restart(n) => {
                w.nodes[n].up = true;
                ev!(ctx, "t={t} node {n} restarts");
                false
            }
            Event::Partition { reader } => {
                let n = w.nodes.len();
                let cut: BTreeSet<usize> = (0..n).filter(|_| w.net.below(2) == 0).collect();
                ev!(ctx, "t={t} reader {reader} partitioned from nodes {cut:?}");
                w.readers[reader].partitioned = cut;
                ctx.count("fault.F5.partitions");
                false
            }
            Event::Heal { reader } => {
                w.readers[reader].partitioned.clear();
                ev!(ctx, "t={t} reader {reader} partition heals");
                false
            }
            Event::GetStart(g) => get_start(ch, ctx, w, g),
            Event::ShardArrive { get, shard } => shard_arrive(ch, ctx, w, get, shard),
            Event::Deadline { get, attempt } => deadline(ch, ctx, w, get, attempt),
        };
        ctx.hash.feed_u64(t ^ seq.rotate_left(40));
        if stop || ctx.stop {
            return true;
        }
    }
    false
}

// ======================================================================
// PUT

fn writer_object(ctx: &mut Ctx, wr: &mut Writer, kind: Kind, cfg: (usize, usize, usize), reuse_choice: u64) -> Result<(), ()> {
    let (k, r, b) = cfg;
    ctx.cpu_mask = wr.m.mask;
    ctx.poison_mode = wr.m.poison_mode;
    // same kind: reset in place (or recycle through into_parts); other kind: recycle the working space
    if let Some((cur, obj)) = &mut wr.obj {
        if *cur == kind && reuse_choice % 3 != 2 {
            let res = ctx.guarded(true, || obj.reset(k, r, b));
            match res {
                Ok(Ok(())) => {
                    ctx.count("probe.writer_reset_reuse");
                    return Ok(());
                }
                Ok(Err(e)) => {
                    ctx.viol(&verdict_props("reset", false), "verdict", format!("verdict/reset/{}", err_name(&e)), format!("{}.reset{cfg:?} returned Err({e:?}) for a supported configuration", kind.name()), true);
                    return Err(());
                }
                Err(msg) => {
                    report_panic(ctx, &kind.name(), "reset", &format!("reset{cfg:?}"), false, &msg);
                    return Err(());
                }
            }
        }
    }
    if let Some((_, old)) = wr.obj.take() {
        if let Ok(Some(work)) = ctx.guarded(false, || old.into_work()) {
            wr.pool.push(work);
        }
    }
    let work = if kind.layer == Layer::Rs { None } else { wr.pool.pop() };
    if work.is_some() {
        ctx.count("probe.work_changed_owner");
    }
    match ctx.guarded(true, || enc_new(kind, k, r, b, work)) {
        Ok(Ok(o)) => {
            wr.obj = Some((kind, o));
            Ok(())
        }
        Ok(Err(e)) => {
            ctx.viol(&["C06", "C08"], "verdict", format!("verdict/new/{}", err_name(&e)), format!("{}::new{cfg:?} returned Err({e:?}) for a supported configuration", kind.name()), true);
            Err(())
        }
        Err(msg) => {
            report_panic(ctx, &kind.name(), "new", &format!("new{cfg:?}"), false, &msg);
            Err(())
        }
    }
}

/// Encodes the stripe on writer `wi` with its long-lived object. Returns the recovery shards.
fn writer_encode(ctx: &mut Ctx, w: &mut World, wi: usize, s: usize, reuse_choice: u64, probe_seed: u64) -> Option<Vec<Vec<u8>>> {
    let (k, r, b, high) = (w.stripes[s].k, w.stripes[s].r, w.stripes[s].b, w.stripes[s].high);
    let kind = w.writers[wi].m.kind_for(k, r, high);
    if writer_object(ctx, &mut w.writers[wi], kind, (k, r, b), reuse_choice).is_err() {
        return None;
    }
    let originals = &w.stripes[s].originals;
    let wr = &mut w.writers[wi];
    let obj = &mut wr.obj.as_mut().unwrap().1;
    let out = ctx.guarded(true, || -> Result<Result<Vec<Vec<u8>>, String>, Error> {
        for o in originals {
            obj.add(o)?;
        }
        let res = obj.encode()?;
        Ok(probe_encoder_result(&res, r, b, probe_seed))
    });
    wr.rounds += 1;
    if wr.rounds > 1 {
        ctx.count("probe.round_on_reused_object");
    }
    match out {
        Ok(Ok(Ok(v))) => {
            if lockstep_check(ctx, kind, "PUT encode") {
                return None;
            }
            Some(v)
        }
        Ok(Ok(Err(why))) => {
            ctx.viol(if why.contains("disagree") || why.contains("differs") { &["C12", "C02"] } else { &["C12"] }, "result-contract", "enc-result/store".into(), format!("{}({k},{r},{b}) EncoderResult: {why}", kind.name()), true);
            None
        }
        Ok(Err(e)) => {
            ctx.viol(&["C06", "C01"], "verdict", format!("verdict/store-encode/{}", err_name(&e)), format!("writer {wi} {}({k},{r},{b}): valid encode sequence returned Err({e:?})", kind.name()), true);
            None
        }
        Err(msg) => {
            report_panic(ctx, &kind.name(), "encode", &format!("PUT encode ({k},{r},{b})"), false, &msg);
            None
        }
    }
}

fn do_put(ch: &mut Chooser, ctx: &mut Ctx, w: &mut World, s: usize) -> bool {
    let (k, r, b, high) = (w.stripes[s].k, w.stripes[s].r, w.stripes[s].b, w.stripes[s].high);
    let wi = ch.pick_usize("put.writer", w.writers.len());
    let probe_seed = ch.seed64("probe.seed");
    let reuse = ch.pick("put.reuse", 3);
    ev!(ctx, "t={} PUT stripe {s}: ({k},{r},{b}) {} rate, writer {wi} as {}", w.now, if high { "high" } else { "low" }, w.writers[wi].m.kind_for(k, r, high).name());
    ctx.distinct(&[0xA0, u64::from(high), envelope::np2(k).trailing_zeros() as u64, envelope::np2(r).trailing_zeros() as u64, (b % 64 != 0) as u64, (b / 64).min(4) as u64, w.writers[wi].m.engine as u64, w.writers[wi].m.pref as u64]);
    let Some(recovery) = writer_encode(ctx, w, wi, s, reuse, probe_seed) else { return true };
    ctx.count("sim.puts");
    ctx.hash.feed_u64(digest(&recovery));
    if b % 64 != 0 {
        ctx.count("probe.partial_last_block");
    }

    // R1 (C02)
    let (mism, compared) = check_r1(high, k, r, &w.stripes[s].originals, &recovery, probe_seed);
    ctx.count_n("r1.symbols_compared", compared as u64);
    if let Some(why) = mism {
        let kind = w.writers[wi].m.kind_for(k, r, high);
        let mut props = vec!["C02"];
        if kind.layer.family() == Family::Default && envelope::supported(if high { Family::Low } else { Family::High }, k, r) && check_r1(!high, k, r, &w.stripes[s].originals, &recovery, probe_seed).0.is_none() {
            props = vec!["C09"];
        }
        if w.writers[wi].rounds > 1 {
            props.push("C05");
        }
        if ctx.viol(&props, "r1-code", "r1/store".into(), format!("writer {wi} {}({k},{r},{b}): {why}", kind.name()), false) {
            return true;
        }
    }
    // a second writer (another machine) encodes the same stripe: bytes must not depend on the machine (C03, C09, C14)
    if w.writers.len() > 1 && ch.chance("put.second", 2, 3) {
        let wj = (wi + 1 + ch.pick_usize("put.second_writer", w.writers.len() - 1)) % w.writers.len();
        let reuse2 = ch.pick("put.reuse", 3);
        let Some(rec2) = writer_encode(ctx, w, wj, s, reuse2, probe_seed) else { return true };
        ctx.count("c03.cross_machine_puts");
        if rec2 != recovery {
            let (ka, kb) = (w.writers[wi].m.kind_for(k, r, high), w.writers[wj].m.kind_for(k, r, high));
            let mut props = vec!["C03"];
            if ka.layer != kb.layer {
                props.push("C09");
            }
            if w.writers[wi].m.mask != w.writers[wj].m.mask {
                props.push("C14");
            }
            if ctx.viol(&props, "cross-engine", format!("cross/store-encode/{}-{}", ka.engine.name(), kb.engine.name()), format!("stripe {s} ({k},{r},{b}): writer {wi} ({}, mask {:#x}) and writer {wj} ({}, mask {:#x}) produce different recovery bytes", ka.name(), w.writers[wi].m.mask & 3, kb.name(), w.writers[wj].m.mask & 3), false) {
                return true;
            }
        }
    }
    // the ancestor release as a foreign writer: for multiples of 64 the bytes are equal (C02)
    if b % 64 == 0 && ch.chance("put.ancestor", 1, 2) {
        let originals = &w.stripes[s].originals;
        match ctx.shadow(|| ancestor_encode(high, k, r, originals)) {
            Ok(Ok(v)) => {
                ctx.count("c02.ancestor_release_encodes_compared");
                if v != recovery && ctx.viol(&["C02"], "ancestor-release", "ancestor/encode".into(), format!("stripe ({k},{r},{b}) {} rate: recovery bytes differ from those of reed-solomon-16 0.1.0", if high { "high" } else { "low" }), false) {
                    return true;
                }
            }
            Ok(Err(why)) => {
                ctx.count("c02.ancestor_release_unusable");
                ev!(ctx, "ancestor encoder unusable here: {why}");
            }
            Err(_) => {}
        }
    }
    // one-shot encode (C10) where the default rule picks this stripe's rate
    if envelope::default_supported(k, r) && envelope::default_is_high(k, r) == high && ch.chance("put.oneshot", 1, 3) {
        let originals = &w.stripes[s].originals;
        match ctx.shadow(|| reed_solomon_simd::encode(k, r, originals)) {
            Ok(Ok(v)) => {
                ctx.count("c10.oneshot_encode_compared");
                if v != recovery && ctx.viol(&["C10", "C09"], "oneshot-equals-streaming", "oneshot/encode/bytes".into(), format!("encode({k},{r},..) differs from the writer's streaming result"), false) {
                    return true;
                }
            }
            Ok(Err(e)) => {
                if ctx.viol(&["C10", "C06"], "oneshot-equals-streaming", format!("oneshot/encode/{}", err_name(&e)), format!("encode({k},{r}, valid) returned Err({e:?})"), false) {
                    return true;
                }
            }
            Err(msg) => {
                if report_panic(ctx, "encode()", "oneshot", "one-shot encode", false, &msg) {
                    return true;
                }
            }
        }
    }
    w.stripes[s].recovery = recovery;
    w.stripes[s].put_done = true;

    // ship the shards: shard j lives on node j mod S
    let n = w.nodes.len();
    for j in 0..k + r {
        let (is_rec, idx) = if j < k { (false, j) } else { (true, j - k) };
        // originals and recovery shards are placed separately so that blocks are aligned per kind
        let node = if w.knobs.placement_block == 0 { j % n } else { (idx / w.knobs.placement_block + usize::from(is_rec)) % n };
        if w.roll(w.knobs.p_loss) {
            ctx.count("fault.F1.message_lost");
            continue;
        }
        let lat = w.latency();
        w.at(lat, Event::StoreArrive { node, stripe: s, is_rec, idx });
        if w.roll(w.knobs.p_dup) {
            let lat2 = w.latency();
            w.at(lat + lat2, Event::StoreArrive { node, stripe: s, is_rec, idx });
            ctx.count("fault.F2.store_message_duplicated");
        }
    }
    false
}

fn store_arrive(ctx: &mut Ctx, w: &mut World, node: usize, stripe: usize, is_rec: bool, idx: usize) {
    if !w.nodes[node].up {
        ctx.count("fault.F4.write_to_down_node");
        return;
    }
    let st = &w.stripes[stripe];
    let mut data = if is_rec { st.recovery[idx].clone() } else { st.originals[idx].clone() };
    let sum = checksum(is_rec, &data);
    let mut index_field = idx;
    let count = if is_rec { st.r } else { st.k };
    if w.roll(w.knobs.p_rot) {
        let at = w.net.below(data.len() as u64) as usize;
        data[at] ^= 1 << w.net.below(8);
        ctx.count("fault.F6.bit_rot");
    } else if w.roll(w.knobs.p_torn) {
        let newlen = match w.net.below(4) {
            0 => 0,
            1 => data.len() - 1,
            2 => data.len() / 2,
            _ => w.net.below(data.len() as u64) as usize,
        };
        data.truncate(newlen);
        ctx.count("fault.F7.torn_write");
    } else if w.roll(w.knobs.p_misdirect) {
        index_field = match w.net.below(4) {
            0 => count,
            1 => usize::MAX,
            2 => usize::MAX - w.net.below(70_000) as usize,
            _ => w.net.below(count as u64) as usize,
        };
        ctx.count("fault.F8.misdirected_write");
    }
    let synced = !w.faults_on || w.net.below(100) < w.knobs.p_sync;
    w.nodes[node].disk.insert((stripe, is_rec, idx), Stored { index_field, data, checksum: sum, synced });
}

// ======================================================================
// GET

fn request_shards(ctx: &mut Ctx, w: &mut World, g: usize) {
    let (s, reader) = (w.gets[g].stripe, w.gets[g].reader);
    let mut to_send = Vec::new();
    for (ni, node) in w.nodes.iter().enumerate() {
        if !node.up || w.readers[reader].partitioned.contains(&ni) {
            continue;
        }
        for ((stripe, is_rec, idx), sh) in &node.disk {
            if *stripe != s {
                continue;
            }
            let already = if *is_rec { w.gets[g].given_r.get(*idx).copied().unwrap_or(false) } else { w.gets[g].given_o.get(*idx).copied().unwrap_or(false) };
            if already && w.gets[g].attempts > 0 {
                continue;
            }
            to_send.push(Delivered { is_rec: *is_rec, true_index: *idx, index_field: sh.index_field, data: sh.data.clone(), checksum: sh.checksum });
        }
    }
    let mut sent = 0;
    for d in to_send {
        if w.roll(w.knobs.p_loss) {
            ctx.count("fault.F1.message_lost");
            continue;
        }
        let lat = 1000 + w.latency();
        if w.roll(w.knobs.p_dup) {
            let lat2 = w.latency();
            w.at(lat + lat2, Event::ShardArrive { get: g, shard: d.clone() });
            ctx.count("fault.F2.dup_delivered");
        }
        w.at(lat, Event::ShardArrive { get: g, shard: d });
        sent += 1;
    }
    let attempt = w.gets[g].attempts;
    let wait = 3000 + w.knobs.jitter * 2 + 10_000;
    w.at(wait, Event::Deadline { get: g, attempt });
    ev!(ctx, "t={} GET {g} (stripe {s}, reader {reader}, {:?}) attempt {attempt}: {sent} responses on their way", w.now, w.gets[g].policy);
}

fn get_start(ch: &mut Chooser, ctx: &mut Ctx, w: &mut World, g: usize) -> bool {
    let (s, reader) = (w.gets[g].stripe, w.gets[g].reader);
    if !w.stripes[s].put_done {
        // PUT has not happened yet (or failed): nothing to read
        w.gets[g].done = true;
        return false;
    }
    if w.readers[reader].busy.is_some() {
        w.readers[reader].queue.push_back(g);
        return false;
    }
    w.readers[reader].busy = Some(g);
    w.gets[g].started = true;
    ctx.count("sim.gets");
    // prepare the reader's long-lived decoder for this stripe
    let (k, r, b, high) = (w.stripes[s].k, w.stripes[s].r, w.stripes[s].b, w.stripes[s].high);
    let rd = &mut w.readers[reader];
    let kind = rd.m.kind_for(k, r, high);
    ctx.cpu_mask = rd.m.mask;
    ctx.poison_mode = rd.m.poison_mode;
    let reuse = ch.pick("get.reuse", 3);
    let mut ready = false;
    if let Some((cur, obj)) = &mut rd.obj {
        if *cur == kind && reuse != 2 {
            match ctx.guarded(true, || obj.reset(k, r, b)) {
                Ok(Ok(())) => {
                    ctx.count("probe.reader_reset_reuse");
                    ready = true;
                }
                Ok(Err(e)) => {
                    return ctx.viol(&verdict_props("reset", false), "verdict", format!("verdict/reset/{}", err_name(&e)), format!("{}.reset({k},{r},{b}) returned Err({e:?}) for a supported configuration", kind.name()), true);
                }
                Err(msg) => return report_panic(ctx, &kind.name(), "reset", &format!("reset({k},{r},{b})"), false, &msg),
            }
        }
    }
    if !ready {
        if let Some((_, old)) = rd.obj.take() {
            if let Ok(Some(work)) = ctx.guarded(false, || old.into_work()) {
                rd.pool.push(work);
            }
        }
        let work = if kind.layer == Layer::Rs { None } else { rd.pool.pop() };
        if work.is_some() {
            ctx.count("probe.work_changed_owner");
        }
        match ctx.guarded(true, || dec_new(kind, k, r, b, work)) {
            Ok(Ok(o)) => rd.obj = Some((kind, o)),
            Ok(Err(e)) => {
                return ctx.viol(&["C06", "C08"], "verdict", format!("verdict/new/{}", err_name(&e)), format!("{}::new({k},{r},{b}) returned Err({e:?}) for a supported configuration", kind.name()), true);
            }
            Err(msg) => return report_panic(ctx, &kind.name(), "new", &format!("new({k},{r},{b})"), false, &msg),
        }
    }
    ctx.distinct(&[0xA1, kind.layer as u64, kind.engine as u64, w.gets[g].policy as u64, u64::from(high), (rd.m.mask & 3) as u64]);
    request_shards(ctx, w, g);
    false
}

fn finish_get(w: &mut World, g: usize, ok: bool) {
    w.gets[g].done = true;
    w.gets[g].ok = ok;
    let reader = w.gets[g].reader;
    w.readers[reader].busy = None;
    if let Some(next) = w.readers[reader].queue.pop_front() {
        w.at(10, Event::GetStart(next));
    }
}

fn shard_arrive(ch: &mut Chooser, ctx: &mut Ctx, w: &mut World, g: usize, d: Delivered) -> bool {
    if w.gets[g].done {
        ctx.count("sim.late_arrival_after_completion");
        return false;
    }
    let (s, reader) = (w.gets[g].stripe, w.gets[g].reader);
    let (k, r, b) = (w.stripes[s].k, w.stripes[s].r, w.stripes[s].b);
    // the stub's verification (README advice): checksum always; length / index only unless buggified off
    if d.data.len() == b && d.checksum != checksum(d.is_rec, &d.data) {
        ctx.count("fault.F6.rot_detected");
        return false;
    }
    let count = if d.is_rec { r } else { k };
    let torn = d.data.len() != b;
    let misdirected = d.index_field != d.true_index;
    if torn && w.knobs.verify_len {
        ctx.count("fault.F7.torn_dropped_by_verification");
        return false;
    }
    if misdirected {
        let already = d.index_field < count && if d.is_rec { w.gets[g].given_r[d.index_field] } else { w.gets[g].given_o[d.index_field] };
        // only structurally detectable damage is ever shown to the decoder unverified
        if w.knobs.verify_index || !(d.index_field >= count || already) {
            ctx.count("fault.F8.misdirected_dropped_by_verification");
            return false;
        }
    }
    // arrival order bookkeeping
    let pos = if d.is_rec { k + d.true_index } else { d.true_index };
    if pos < w.gets[g].last_pos {
        w.gets[g].inversions += 1;
    }
    w.gets[g].last_pos = pos;
    w.gets[g].raw.push(d.clone());

    // R2 verdict for this delivery
    let index = d.index_field;
    let mut adm = Vec::new();
    if index >= count {
        adm.push(if d.is_rec { Error::InvalidRecoveryShardIndex { recovery_count: r, index } } else { Error::InvalidOriginalShardIndex { original_count: k, index } });
    } else if if d.is_rec { w.gets[g].given_r[index] } else { w.gets[g].given_o[index] } {
        adm.push(if d.is_rec { Error::DuplicateRecoveryShardIndex { index } } else { Error::DuplicateOriginalShardIndex { index } });
    }
    if d.data.len() != b {
        adm.push(Error::DifferentShardSize { shard_bytes: b, got: d.data.len() });
    }
    let rd = &mut w.readers[reader];
    ctx.cpu_mask = rd.m.mask;
    ctx.poison_mode = rd.m.poison_mode;
    let (kind, obj) = rd.obj.as_mut().unwrap();
    let kind = *kind;
    let failed_ever = w.gets[g].failed_round;
    let res = ctx.guarded(true, || if d.is_rec { obj.add_recovery(index, &d.data) } else { obj.add_original(index, &d.data) });
    let res = match res {
        Ok(v) => v,
        Err(msg) => return report_panic(ctx, &kind.name(), "add", &format!("add_{}_shard({index}, len {})", if d.is_rec { "recovery" } else { "original" }, d.data.len()), failed_ever, &msg),
    };
    ev!(ctx, "t={} GET {g}: {}{} arrives (index field {index}, {} bytes) -> {res:?}", w.now, if d.is_rec { 'R' } else { 'O' }, d.true_index, d.data.len());
    ctx.hash.feed_u64(res.as_ref().err().map_or(0, err_code) + 16 * pos as u64);
    if let Some(why) = judge(&res, &adm) {
        return ctx.viol(&verdict_props("add", failed_ever), "verdict", format!("verdict/store-add/{}", res.as_ref().err().map_or("Ok", err_name)), format!("reader {reader} {}({k},{r},{b}).add_{}_shard({index}, {} bytes) {why}", kind.name(), if d.is_rec { "recovery" } else { "original" }, d.data.len()), true);
    }
    if res.is_err() {
        w.gets[g].failed_round = true;
        ctx.count(if torn { "fault.F7.torn_rejected" } else if index >= count { "fault.F8.misdirected_rejected" } else { "fault.F2.dup_rejected" });
    } else {
        if d.is_rec {
            w.gets[g].given_r[index] = true;
            w.gets[g].n_r += 1;
        } else {
            w.gets[g].given_o[index] = true;
            w.gets[g].n_o += 1;
        }
        w.gets[g].adds.push(Add { is_rec: d.is_rec, index, data: d.data });
    }
    let have = w.gets[g].n_o + w.gets[g].n_r;
    match w.gets[g].policy {
        Policy::Asap if have >= k => try_decode(ch, ctx, w, g),
        Policy::Eager => try_decode(ch, ctx, w, g),
        Policy::Stragglers if have == k + r => try_decode(ch, ctx, w, g),
        _ => false,
    }
}

fn deadline(ch: &mut Chooser, ctx: &mut Ctx, w: &mut World, g: usize, attempt: u32) -> bool {
    if w.gets[g].done || w.gets[g].attempts != attempt {
        return false;
    }
    let k = w.stripes[w.gets[g].stripe].k;
    let have = w.gets[g].n_o + w.gets[g].n_r;
    if have >= k || w.gets[g].policy == Policy::Eager {
        if try_decode(ch, ctx, w, g) {
            return true;
        }
        if w.gets[g].done {
            return false;
        }
    }
    w.gets[g].attempts += 1;
    if w.gets[g].attempts >= 4 {
        ev!(ctx, "t={} GET {g} gives up with {have} of {k} shards", w.now);
        ctx.count("sim.gets_unavailable");
        // leave the decoder as it is: the next GET resets it (history carries over)
        finish_get(w, g, false);
        return false;
    }
    ctx.count("probe.get_retry_same_decoder");
    request_shards(ctx, w, g);
    false
}

/// Calls `decode` on the reader's object with whatever has been accepted. Returns `true` to stop the run.
fn try_decode(ch: &mut Chooser, ctx: &mut Ctx, w: &mut World, g: usize) -> bool {
    let (s, reader) = (w.gets[g].stripe, w.gets[g].reader);
    let (k, r, b, high) = (w.stripes[s].k, w.stripes[s].r, w.stripes[s].b, w.stripes[s].high);
    let (n_o, n_r) = (w.gets[g].n_o, w.gets[g].n_r);
    let adm = if n_o + n_r < k { vec![Error::NotEnoughShards { original_count: k, original_received_count: n_o, recovery_received_count: n_r }] } else { vec![] };
    let probe_seed = ch.seed64("probe.seed");
    let given_o = w.gets[g].given_o.clone();
    let rd = &mut w.readers[reader];
    ctx.cpu_mask = rd.m.mask;
    ctx.poison_mode = rd.m.poison_mode;
    let (kind, obj) = rd.obj.as_mut().unwrap();
    let kind = *kind;
    let failed = w.gets[g].failed_round;
    let out = ctx.guarded(true, || obj.decode().map(|res| probe_decoder_result(&res, k, b, &given_o, probe_seed)));
    let out = match out {
        Ok(v) => v,
        Err(msg) => {
            let stop = report_panic(ctx, &kind.name(), "decode", &format!("decode() with {n_o}+{n_r} of {k}"), failed, &msg);
            if n_o + n_r >= k {
                ctx.viol(&["C01"], "no-panic", format!("panic/store-decode/{}", panic_sig(&msg)), format!("reader {reader} {}({k},{r},{b}).decode() with enough shards ({n_o}+{n_r}) panicked: {msg}", kind.name()), true);
            }
            return stop || ctx.stop;
        }
    };
    ev!(ctx, "t={} GET {g}: decode() with {n_o} original + {n_r} recovery of k={k} -> {:?}", w.now, out.as_ref().map(|p| p.as_ref().map(|m| m.len())));
    ctx.hash.feed_u64(out.as_ref().err().map_or(0, err_code));
    if let Some(why) = judge(&out, &adm) {
        let mut props = verdict_props("decode", failed);
        if adm.is_empty() {
            props.push("C01");
        }
        return ctx.viol(&props, "verdict", format!("verdict/store-decode/{}", out.as_ref().err().map_or("Ok", err_name)), format!("reader {reader} {}({k},{r},{b}).decode() with {n_o} original + {n_r} recovery shards {why}", kind.name()), true);
    }
    let probed = match out {
        Err(_) => {
            w.gets[g].failed_round = true;
            ctx.count("fault.F10.early_decode");
            return false;
        }
        Ok(p) => p,
    };
    if lockstep_check(ctx, kind, "GET decode") {
        return true;
    }
    rd.rounds += 1;
    if rd.rounds > 1 {
        ctx.count("probe.round_on_reused_object");
    }
    ctx.count("sim.gets_completed");
    if n_o + n_r == k {
        ctx.count("probe.decode_with_exactly_k");
    } else {
        ctx.count("probe.decode_with_surplus");
    }
    if n_o == 0 {
        ctx.count("probe.all_originals_lost");
    }
    if n_o == k {
        ctx.count("probe.no_original_lost");
    }
    if w.gets[g].attempts > 0 {
        ctx.count("probe.decode_failed_then_succeeded_on_same_object");
    }
    if failed {
        ctx.count("probe.round_after_failed_call");
    }
    let restored = match probed {
        Ok(m) => m,
        Err(why) => {
            return ctx.viol(if why.contains(" bytes, expected") { &["C12", "C04"] } else { &["C12", "C11", "C01"] }, "result-contract", "dec-result/store".into(), format!("reader {reader} {}({k},{r},{b}) DecoderResult: {why}", kind.name()), true);
        }
    };
    // safety: exactly the originals not delivered, byte for byte (C01, C11)
    for (i, sh) in &restored {
        if sh != &w.stripes[s].originals[*i] {
            let mut props = vec!["C01", "C11", "C08"];
            if rd.rounds > 1 {
                props.push("C05");
            }
            if failed {
                props.push("C07");
            }
            if ctx.viol(&props, "restores-original-bytes", "restore/store".into(), format!("GET {g} stripe {s} ({k},{r},{b}) reader {reader} {}: restored original {i} differs from what the client PUT ({n_o} originals + {n_r} recovery delivered, order {:?}..)", kind.name(), w.gets[g].adds.iter().take(10).map(|a| format!("{}{}", if a.is_rec { 'R' } else { 'O' }, a.index)).collect::<Vec<_>>()), false) {
                return true;
            }
            break;
        }
    }
    let adds = w.gets[g].adds.clone();
    ctx.distinct(&[0xA2, kind.layer as u64, kind.engine as u64, u64::from(n_o == 0), u64::from(n_o == k), u64::from(n_o + n_r == k), w.gets[g].inversions.min(3), u64::from(failed), w.gets[g].attempts.min(2) as u64]);
    if ctx.stats.samples.len() < 3 {
        ctx.stats.samples.push(format!("GET stripe ({k},{r},{b}) {} rate on {} mask {:#x}: arrivals {:?}.. -> {} restored", if high { "high" } else { "low" }, kind.name(), rd.m.mask & 3, adds.iter().take(10).map(|a| format!("{}{}", if a.is_rec { 'R' } else { 'O' }, a.index)).collect::<Vec<_>>(), restored.len()));
    }

    // the same delivered set in other orders, on fresh decoders (C11)
    let n_orders = 1 + ch.pick_usize("get.orders", 3);
    for _ in 0..n_orders {
        let mut v = adds.clone();
        let which = ch.pick("get.order_kind", 4);
        match which {
            0 => v.sort_by_key(|a| (a.is_rec, a.index)),
            1 => {
                v.sort_by_key(|a| (a.is_rec, a.index));
                v.reverse();
            }
            2 => v.sort_by_key(|a| (!a.is_rec, a.index)),
            _ => {
                let mut p = Prng::new(ch.seed64("get.shuffle"));
                for i in (1..v.len()).rev() {
                    v.swap(i, p.below(i as u64 + 1) as usize);
                }
            }
        }
        match ctx.shadow(|| fresh_decode(kind, k, r, b, &v)) {
            Ok(Ok(Ok(f))) => {
                ctx.count("c11.order_variants");
                if f != restored && ctx.viol(&["C11"], "order-independence", format!("order/{which}"), format!("stripe ({k},{r},{b}) {}: the same {} delivered shards added in {} order restore different data than in arrival order", kind.name(), v.len(), ["ascending", "descending", "recovery-first", "shuffled"][which as usize]), false) {
                    return true;
                }
            }
            Ok(Ok(Err(e))) => {
                if ctx.viol(&["C11", "C06"], "order-independence", "order/err".into(), format!("fresh decoder fails with {e:?} on a delivered set that decoded in arrival order"), false) {
                    return true;
                }
            }
            _ => {}
        }
    }
    // a sufficient subset (exactly k of the delivered shards) must restore the same bytes (C11 surplus, C01)
    if adds.len() > k && ch.chance("get.subset", 1, 2) {
        let mut v = adds.clone();
        let mut p = Prng::new(ch.seed64("get.subset_seed"));
        while v.len() > k {
            v.swap_remove(p.below(v.len() as u64) as usize);
        }
        if let Ok(Ok(Ok(f))) = ctx.shadow(|| fresh_decode(kind, k, r, b, &v)) {
            ctx.count("c11.subset_variants");
            let mut bad = false;
            for (i, sh) in &f {
                if sh != &w.stripes[s].originals[*i] {
                    bad = true;
                }
            }
            if bad && ctx.viol(&["C11", "C01"], "order-independence", "order/subset".into(), format!("stripe ({k},{r},{b}) {}: a sufficient subset of exactly {k} delivered shards restores wrong data", kind.name()), false) {
                return true;
            }
        }
    }
    // a second reader of another kind / engine / CPU, fed the same deliveries (C03, C09, C14)
    if ch.chance("get.second_reader", 2, 3) {
        let m2 = Machine::gen(ch);
        let kind2 = m2.kind_for(k, r, high);
        ctx.cpu_mask = m2.mask;
        let mask2 = m2.mask;
        let res = {
            reed_solomon_simd::verif::set_cpu_mask(mask2);
            let r2 = std::panic::catch_unwind(std::panic::AssertUnwindSafe(|| fresh_decode(kind2, k, r, b, &adds)));
            reed_solomon_simd::verif::set_cpu_mask(u32::MAX);
            r2
        };
        if let Ok(Ok(Ok(f))) = res {
            ctx.count("c03.cross_machine_gets");
            if lockstep_check(ctx, kind2, "second reader") {
                return true;
            }
            if f != restored {
                let mut props = vec!["C03"];
                if kind2.layer != kind.layer {
                    props.push("C09");
                }
                if mask2 != rd.m.mask {
                    props.push("C14");
                }
                if ctx.viol(&props, "cross-engine", format!("cross/store-decode/{}-{}", kind.engine.name(), kind2.engine.name()), format!("stripe ({k},{r},{b}): reader {} (mask {:#x}) and a second reader {} (mask {:#x}) restore different data from the same deliveries", kind.name(), rd.m.mask & 3, kind2.name(), mask2 & 3), false) {
                    return true;
                }
            }
        }
        ctx.cpu_mask = u32::MAX;
    }
    // the ancestor release as a foreign reader of these shards (C02 interoperability)
    if b % 64 == 0 && ch.chance("get.ancestor", 1, 2) {
        match ctx.shadow(|| ancestor_decode(high, k, r, b, &adds)) {
            Ok(Ok(m)) => {
                ctx.count("c02.ancestor_release_decodes_compared");
                if m != restored && ctx.viol(&["C02"], "ancestor-release", "ancestor/decode".into(), format!("stripe ({k},{r},{b}): reed-solomon-16 0.1.0 restores different data from the same delivered shards"), false) {
                    return true;
                }
            }
            Ok(Err(why)) => {
                ctx.count("c02.ancestor_release_unusable");
                ev!(ctx, "ancestor decoder unusable here: {why}");
            }
            Err(_) => {}
        }
    }
    // the one-shot function on what actually arrived (C10); also with the rejected deliveries included
    if envelope::default_supported(k, r) && envelope::default_is_high(k, r) == high && ch.chance("get.oneshot", 1, 2) {
        let orig: Vec<(usize, &[u8])> = adds.iter().filter(|a| !a.is_rec).map(|a| (a.index, &a.data[..])).collect();
        let rec: Vec<(usize, &[u8])> = adds.iter().filter(|a| a.is_rec).map(|a| (a.index, &a.data[..])).collect();
        if rec.is_empty() {
            ctx.count("probe.oneshot_no_recovery_given");
        }
        match ctx.shadow(|| reed_solomon_simd::decode(k, r, orig, rec)) {
            Ok(Ok(m)) => {
                ctx.count("c10.oneshot_decode_compared");
                let m: BTreeMap<usize, Vec<u8>> = m.into_iter().collect();
                if m != restored && ctx.viol(&["C10", "C09"], "oneshot-equals-streaming", "oneshot/decode/bytes".into(), format!("decode({k},{r},..) on the delivered shards differs from the reader's streaming result"), false) {
                    return true;
                }
            }
            Ok(Err(e)) => {
                if ctx.viol(&["C10", "C06"], "oneshot-equals-streaming", format!("oneshot/decode/{}", err_name(&e)), format!("decode({k},{r}, delivered shards) returned Err({e:?}) where the streaming decoder succeeds"), false) {
                    return true;
                }
            }
            Err(msg) => {
                if report_panic(ctx, "decode()", "oneshot", "one-shot decode", false, &msg) {
                    return true;
                }
            }
        }
        if failed {
            // raw deliveries, rejected ones included: the streaming sequence fails, so one-shot must fail truthfully
            let raw = &w.gets[g].raw;
            let orig: Vec<(usize, &[u8])> = raw.iter().filter(|d| !d.is_rec).map(|d| (d.index_field, &d.data[..])).collect();
            let rec: Vec<(usize, &[u8])> = raw.iter().filter(|d| d.is_rec).map(|d| (d.index_field, &d.data[..])).collect();
            let o_meta: Vec<(usize, usize)> = orig.iter().map(|(i, d)| (*i, d.len())).collect();
            let r_meta: Vec<(usize, usize)> = rec.iter().map(|(i, d)| (*i, d.len())).collect();
            let adm = crate::oneshot::decode_adm(k, r, &o_meta, &r_meta);
            if !adm.is_empty() {
                match ctx.shadow(|| reed_solomon_simd::decode(k, r, orig, rec)) {
                    Ok(Ok(_)) => {
                        if ctx.viol(&["C10"], "oneshot-equals-streaming", format!("oneshot/decode/ok-where-streaming-fails/{}", if r_meta.is_empty() { "no-recovery-given" } else { "with-recovery" }), format!("decode({k},{r}, originals {o_meta:?}, recovery {r_meta:?}) returned Ok although the delivery contains rejected shards"), false) {
                            return true;
                        }
                    }
                    Ok(Err(e)) => {
                        ctx.count("oneshot.errors_judged");
                        if !adm.contains(&e) && ctx.viol(&["C10", "C06"], "verdict", format!("verdict/oneshot-decode/{}", err_name(&e)), format!("decode({k},{r}, originals {o_meta:?}, recovery {r_meta:?}) returned Err({e:?}); admissible: {adm:?}"), false) {
                            return true;
                        }
                    }
                    Err(msg) => {
                        if report_panic(ctx, "decode()", "oneshot", "one-shot decode", false, &msg) {
                            return true;
                        }
                    }
                }
            }
        }
    }
    finish_get(w, g, true);
    false
}

// ======================================================================
// Corner stripes: the envelope really encodes and decodes (C08, C01, C02)

pub fn run_corner(ch: &mut Chooser, ctx: &mut Ctx) {
    let corners = envelope::corners();
    let (ck, cr) = corners[ch.pick_usize("corner.which", corners.len())];
    // a supported neighbour of the corner (inside the envelope)
    let (k, r) = match ch.pick("corner.nb", 4) {
        0 => (ck, cr),
        1 => (ck.saturating_sub(1).max(1), cr),
        2 => (ck, cr.saturating_sub(1).max(1)),
        _ => (ck.saturating_sub(1).max(1), cr.saturating_sub(1).max(1)),
    };
    if !envelope::default_supported(k, r) {
        return;
    }
    let fam_choices: Vec<Family> = [Family::Default, Family::High, Family::Low].into_iter().filter(|f| envelope::supported(*f, k, r)).collect();
    let fam = fam_choices[ch.pick_usize("corner.fam", fam_choices.len())];
    let high = envelope::effective_high(fam, k, r);
    let b = [2usize, 2, 64, 66][ch.pick_usize("corner.bytes", 4)];
    let engine = [EngineKind::Avx2, EngineKind::Default, EngineKind::Ssse3, EngineKind::NoSimd][ch.pick_usize("corner.engine", 4)];
    let engine = if engine.available() { engine } else { EngineKind::NoSimd };
    let layer = match fam {
        Family::Default => if ch.chance("corner.rs", 1, 2) { Layer::Rs } else { Layer::Default },
        Family::High => Layer::High,
        Family::Low => Layer::Low,
    };
    let kind = Kind { layer, engine: if layer == Layer::Rs { EngineKind::Default } else { engine } };
    ctx.arm_poison(ch.seed64("poison.seed"), 1);
    ev!(ctx, "corner stripe: {} ({k},{r},{b}) {} rate", kind.name(), if high { "high" } else { "low" });
    ctx.distinct(&[0xC0, k as u64, r as u64, b as u64, kind.layer as u64]);
    let data_seed = ch.seed64("data.seed");
    let originals: Vec<Vec<u8>> = (0..k).map(|i| gen_shard(data_seed, 0, i, b)).collect();
    let enc = ctx.guarded(true, || -> Result<Vec<Vec<u8>>, Error> {
        let mut e = enc_new(kind, k, r, b, None)?;
        for o in &originals {
            e.add(o)?;
        }
        let res = e.encode()?;
        Ok(res.recovery_iter().map(<[u8]>::to_vec).collect())
    });
    let recovery = match enc {
        Ok(Ok(v)) => v,
        Ok(Err(e)) => {
            ctx.viol(&["C08", "C06", "C01"], "verdict", format!("verdict/corner-encode/{}", err_name(&e)), format!("{}({k},{r},{b}) inside the envelope failed to encode: {e:?}", kind.name()), true);
            return;
        }
        Err(msg) => {
            ctx.viol(&["C08", "C06", "C01"], "no-panic", format!("panic/corner-encode/{}", panic_sig(&msg)), format!("{}({k},{r},{b}) inside the envelope panicked while encoding: {msg}", kind.name()), true);
            return;
        }
    };
    ctx.count("corner.encodes");
    // another engine on another machine must produce the same bytes at the edge of the envelope too (C03)
    if kind.layer != Layer::Rs {
        let other = Kind { layer: kind.layer, engine: if kind.engine == EngineKind::NoSimd { if EngineKind::Avx2.available() { EngineKind::Avx2 } else { EngineKind::Naive } } else { EngineKind::NoSimd } };
        if let Ok(Ok(rec2)) = ctx.shadow(|| fresh_encode(other, k, r, b, &originals)) {
            ctx.count("c03.cross_engine_rounds");
            if rec2 != recovery {
                let j = rec2.iter().zip(recovery.iter()).position(|(a, c)| a != c).unwrap_or(0);
                if ctx.viol(&["C03"], "cross-engine", format!("cross/corner-encode/{}-{}", kind.engine.name(), other.engine.name()), format!("({k},{r},{b}) {} rate: recovery {j} differs between {} and {}", if high { "high" } else { "low" }, kind.name(), other.name()), false) {
                    return;
                }
            }
        }
    }
    let (mism, compared) = check_r1(high, k, r, &originals, &recovery, data_seed);
    ctx.count_n("r1.symbols_compared", compared as u64);
    if let Some(why) = mism {
        if ctx.viol(&["C02", "C08"], "r1-code", "r1/corner".into(), format!("{}({k},{r},{b}): {why}", kind.name()), false) {
            return;
        }
    }
    // loss pattern: maximal loss in several shapes
    let total = k + r;
    let mut keep: Vec<(bool, usize)> = Vec::with_capacity(k);
    match ch.pick("corner.pattern", 6) {
        5 => {
            // everything arrives: all k originals and all r recovery shards (maximal surplus)
            for i in 0..k {
                keep.push((false, i));
            }
            for j in 0..r {
                keep.push((true, j));
            }
        }
        0 => {
            // as many recovery shards as possible, then originals from the end
            for j in 0..r.min(k) {
                keep.push((true, j));
            }
            let mut i = k;
            while keep.len() < k {
                i -= 1;
                keep.push((false, i));
            }
        }
        1 => {
            // all originals (nothing to restore) plus some recovery
            for i in 0..k {
                keep.push((false, i));
            }
            keep.push((true, r - 1));
        }
        2 => {
            // exactly k survivors chosen uniformly
            let mut all: Vec<(bool, usize)> = (0..k).map(|i| (false, i)).chain((0..r).map(|j| (true, j))).collect();
            let mut p = Prng::new(ch.seed64("corner.lossseed"));
            for _ in 0..total - k {
                let at = p.below(all.len() as u64) as usize;
                all.swap_remove(at);
            }
            keep = all;
        }
        3 => {
            // lose the first chunk of originals, take recovery from the end
            let lose = r.min(k);
            for i in lose..k {
                keep.push((false, i));
            }
            for j in (r - lose..r).rev() {
                keep.push((true, j));
            }
        }
        _ => {
            // strided loss
            let mut lost = 0;
            for i in 0..k {
                if i % 2 == 0 && lost < r {
                    lost += 1;
                } else {
                    keep.push((false, i));
                }
            }
            for j in 0..lost {
                keep.push((true, j));
            }
        }
    }
    let adds: Vec<Add> = keep.iter().map(|(is_rec, i)| Add { is_rec: *is_rec, index: *i, data: if *is_rec { recovery[*i].clone() } else { originals[*i].clone() } }).collect();
    let dec = ctx.guarded(true, || fresh_decode(kind, k, r, b, &adds));
    match dec {
        Ok(Ok(Ok(m))) => {
            ctx.count("corner.decodes");
            let given: BTreeSet<usize> = keep.iter().filter(|(rec, _)| !*rec).map(|(_, i)| *i).collect();
            let want: Vec<usize> = (0..k).filter(|i| !given.contains(i)).collect();
            let got: Vec<usize> = m.keys().copied().collect();
            if got != want {
                ctx.viol(&["C01", "C08", "C12"], "restores-original-bytes", "restore/corner-set".into(), format!("{}({k},{r},{b}): restored {} shards, expected the {} missing originals", kind.name(), got.len(), want.len()), false);
                return;
            }
            for (i, sh) in &m {
                if sh != &originals[*i] {
                    ctx.viol(&["C01", "C08"], "restores-original-bytes", "restore/corner".into(), format!("{}({k},{r},{b}): restored original {i} differs", kind.name()), false);
                    return;
                }
            }
        }
        Ok(Ok(Err(e))) => {
            // (C12: after a decode with a sufficient set there is a result whose accessors say which originals were missing -
            // for "everything arrived" an empty one; no result at all is not what the accessor contract describes)
            ctx.viol(&["C01", "C08", "C06", "C12"], "verdict", format!("verdict/corner-decode/{}", err_name(&e)), format!("{}({k},{r},{b}) inside the envelope failed to decode with {} shards: {e:?}", kind.name(), adds.len()), false);
        }
        Ok(Err(why)) => {
            ctx.viol(&["C01", "C08", "C06"], "verdict", "verdict/corner-decode/setup".into(), format!("{}({k},{r},{b}): {why}", kind.name()), false);
        }
        Err(msg) => {
            ctx.viol(&["C08", "C06", "C01"], "no-panic", format!("panic/corner-decode/{}", panic_sig(&msg)), format!("{}({k},{r},{b}) inside the envelope panicked while decoding: {msg}", kind.name()), true);
        }
    }
}
