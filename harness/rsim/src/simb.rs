//! Sim B - adversarial call histories on one long-lived object, judged by R2 (state-machine model),
//! R3 (fresh-object shadow), R1 (closed-form code), R4 (envelope / rate rule), R5 (allocation).

use std::collections::BTreeMap;

use reed_solomon_simd::rate::{DecoderWork, EncoderWork};
use reed_solomon_simd::Error;
use simcore::countalloc::AllocStats;
use simcore::envelope::{self, Family, Need};
use simcore::Chooser;

use crate::codec::*;
use crate::common::*;
use crate::ev;
use crate::oracles::*;

#[derive(Default)]
pub struct Pool {
    enc: Vec<(EncoderWork, Need)>,
    dec: Vec<(DecoderWork, Need)>,
}

pub fn gen_engine(ch: &mut Chooser) -> EngineKind {
    loop {
        let e = EngineKind::ALL[ch.weighted("kind.engine", &[4, 1, 2, 3, 3, 1, 1])];
        if e.available() {
            return e;
        }
    }
}

pub fn gen_kind(ch: &mut Chooser) -> Kind {
    let layer = Layer::ALL[ch.weighted("kind.layer", &[2, 3, 3, 3])];
    let engine = if layer == Layer::Rs {
        EngineKind::Default
    } else {
        gen_engine(ch)
    };
    Kind { layer, engine }
}

pub fn slow_engine(e: EngineKind) -> bool {
    matches!(e, EngineKind::Naive | EngineKind::Lockstep | EngineKind::NeonEmu)
}

/// Slow engines (byte-at-a-time reference, five engines in lock step, emulated Neon) stay just above the 128 KiB mark.
fn clamp_bytes_for(kind: Kind, b: usize) -> usize {
    if slow_engine(kind.engine) && b > 140_000 {
        131_136 + (b % 64)
    } else {
        b
    }
}

fn gen_config_for(ch: &mut Chooser, kind: Kind) -> (usize, usize, usize) {
    let (k, r, b) = gen_config(ch, kind.layer.family());
    let b = clamp_bytes_for(kind, b);
    if slow_engine(kind.engine) && k + r > 200 {
        // keep slow engines on small and medium stripes
        let (k2, r2) = gen_counts(ch, kind.layer.family(), 1);
        (k2, r2, b)
    } else {
        (k, r, b)
    }
}

/// A working space that one fixed rate set up for a configuration the OTHER fixed rate does not support is handed to
/// that other rate's constructor with exactly the same triple: it must be refused like a fresh construction is
/// (configurations inside only one of the two envelopes have more than 32768 shards on one side, which ordinary
/// histories never carry around). Returns true when a violation was reported.
fn cross_rate_refused(ch: &mut Chooser, ctx: &mut Ctx, decoder: bool) -> bool {
    let big = 32769 + ch.pick_usize("xrate.big", 32766);
    let small = 1 + ch.pick_usize("xrate.small", 5);
    let (k, r) = if ch.chance("xrate.swap", 1, 2) { (small, big) } else { (big, small) };
    let hi = envelope::supported(Family::High, k, r);
    let lo = envelope::supported(Family::Low, k, r);
    if hi == lo {
        return false;
    }
    let (a, b) = if hi { (Layer::High, Layer::Low) } else { (Layer::Low, Layer::High) };
    let engine = if ch.chance("xrate.engine", 1, 2) && EngineKind::Avx2.available() { EngineKind::Avx2 } else { EngineKind::NoSimd };
    let bytes = [2usize, 64, 66][ch.pick_usize("xrate.bytes", 3)];
    let (ka, kb) = (Kind { layer: a, engine }, Kind { layer: b, engine });
    ctx.count("probe.cross_rate_refused_handover");
    let want = Error::UnsupportedShardCount { original_count: k, recovery_count: r };
    let outcome: Result<Result<(), Error>, String> = if decoder {
        let Ok(Ok(first)) = ctx.guarded(false, || dec_new(ka, k, r, bytes, None)) else {
            ctx.viol(&["C08", "C06"], "verdict", "verdict/new/xrate-first".into(), format!("{}::new({k}, {r}, {bytes}) failed for a configuration its rate supports", ka.name()), false);
            return true;
        };
        let Ok(work) = ctx.guarded(false, || first.into_work()) else { return false };
        ctx.guarded(false, || dec_new(kb, k, r, bytes, work).map(|_| ()))
    } else {
        let Ok(Ok(first)) = ctx.guarded(false, || enc_new(ka, k, r, bytes, None)) else {
            ctx.viol(&["C08", "C06"], "verdict", "verdict/new/xrate-first".into(), format!("{}::new({k}, {r}, {bytes}) failed for a configuration its rate supports", ka.name()), false);
            return true;
        };
        let Ok(work) = ctx.guarded(false, || first.into_work()) else { return false };
        ctx.guarded(false, || enc_new(kb, k, r, bytes, work).map(|_| ()))
    };
    let _ = take_ctor_stats();
    ev!(ctx, "cross-rate hand-over: {} set up ({k}, {r}, {bytes}); {}::new with that working space and the same triple -> {:?}", ka.name(), kb.name(), outcome);
    match outcome {
        Ok(Err(e)) if e == want => false,
        Ok(Err(e)) => {
            ctx.viol(&["C08", "C06"], "verdict", format!("verdict/new/{}", err_name(&e)), format!("{}::new({k}, {r}, {bytes}, Some(work of {})) returned Err({e:?}), expected Err({want:?})", kb.name(), ka.name()), false);
            true
        }
        Ok(Ok(())) => {
            ctx.viol(&["C08", "C06"], "envelope", "envelope/new-accepts-unsupported".into(), format!("{}::new({k}, {r}, {bytes}, Some(work)) returned Ok although {}::supports({k}, {r}) is false (the working space came from {} with the same triple)", kb.name(), kb.name(), ka.name()), false);
            true
        }
        Err(msg) => {
            ctx.viol(&["C08", "C06"], "no-panic", format!("panic/new/{}", panic_sig(&msg)), format!("{}::new({k}, {r}, {bytes}, Some(work of {})) panicked instead of returning Err({want:?}): {msg}", kb.name(), ka.name()), false);
            true
        }
    }
}

pub fn other_engine(kind: Kind, ch: &mut Chooser) -> Kind {
    let mut engine = gen_engine(ch);
    if engine == kind.engine || engine == EngineKind::Lockstep {
        engine = if kind.engine == EngineKind::NoSimd {
            EngineKind::Avx2
        } else {
            EngineKind::NoSimd
        };
        if !engine.available() {
            engine = EngineKind::Naive;
        }
    }
    let layer = if kind.layer == Layer::Rs { Layer::Default } else { kind.layer };
    Kind { layer, engine }
}

pub fn lockstep_check(ctx: &mut Ctx, kind: Kind, what: &str) -> bool {
    if kind.engine != EngineKind::Lockstep {
        return false;
    }
    let log = crate::lockstep::take_log();
    ctx.count_n("lockstep.fft_calls", log.calls[0]);
    ctx.count_n("lockstep.ifft_calls", log.calls[1]);
    ctx.count_n("lockstep.mul_calls", log.calls[2]);
    ctx.count_n("lockstep.eval_poly_calls", log.calls[3]);
    ctx.count_n("lockstep.differences_only_in_contract_garbage_region", log.garbage_region_differences);
    ctx.count_n("lockstep.perturbed_shadow_calls", log.perturbed_calls);
    ctx.count_n("lockstep.far_position_shadow_calls", log.far_position_calls);
    ctx.stats.tuples.extend(log.tuples.iter().copied());
    if let Some(v) = log.violations.first() {
        let prim = v.split('(').next().unwrap_or("?").to_string();
        return ctx.viol(
            &["C03"],
            "lockstep-primitive",
            format!("lockstep/{prim}"),
            format!("during {what}: {v}"),
            false,
        );
    }
    false
}

pub fn alloc_check(ctx: &mut Ctx, kind: Kind, what: &str, rule: &'static str, acc: &AllocStats) -> bool {
    if kind.engine == EngineKind::Lockstep {
        return false; // the lock-step engine itself allocates copies
    }
    ctx.count("alloc.regions_checked");
    if acc.big_calls > 0 {
        return ctx.viol(
            &["C17"],
            "no-allocation",
            format!("alloc/{rule}/{}", what.split('(').next().unwrap_or(what)),
            format!(
                "{} {what}: {} allocation(s) of >= 64 bytes (largest {} bytes, {} bytes in total) although {rule}",
                kind.name(),
                acc.big_calls,
                acc.largest,
                acc.bytes
            ),
            false,
        );
    }
    false
}

/// The shard buffer already held is large enough and only the index bitmap has to grow: whatever is allocated must
/// be of the bitmap's order of magnitude (a few bits per position), not a new shard buffer (>= 64 bytes per position).
pub fn alloc_check_bitmap_only(ctx: &mut Ctx, kind: Kind, what: &str, acc: &AllocStats, need: Need) -> bool {
    if kind.engine == EngineKind::Lockstep {
        return false;
    }
    ctx.count("probe.only_the_bitmap_grows");
    let allowance = need.bitmap_bits as u64 / 2 + 256; // growth by doubling, word padding, plus slack
    if acc.largest > allowance && acc.largest >= 64 * (need.bitmap_bits as u64).max(8) / 4 {
        return ctx.viol(
            &["C17"],
            "no-allocation",
            format!("alloc/shard-buffer-where-only-the-bitmap-grows/{}", what.split('(').next().unwrap_or(what)),
            format!("{} {what}: an allocation of {} bytes although the shard buffer already held covers the configuration and only the index bitmap ({} bits) had to grow", kind.name(), acc.largest, need.bitmap_bits),
            false,
        );
    }
    false
}

pub fn panic_props(op: &'static str, failed_ever: bool) -> Vec<&'static str> {
    let mut p = vec!["C06"];
    if failed_ever {
        p.push("C07");
    }
    match op {
        "result" | "drop" => p.push("C12"),
        "new" | "reset" | "supports" | "validate" => p.push("C08"),
        // a configuration that new / reset accepted must really encode and decode (C08's last clause)
        "add" | "encode" | "decode" => p.push("C08"),
        "oneshot" => p.push("C10"),
        _ => {}
    }
    p
}

pub fn report_panic(ctx: &mut Ctx, kind: &str, op: &'static str, call: &str, failed_ever: bool, msg: &str) -> bool {
    ctx.viol(
        &panic_props(op, failed_ever),
        "no-panic",
        format!("panic/{op}/{}{}", panic_sig(msg), if failed_ever { "/after-failed-call" } else { "" }),
        format!("{kind}.{call} panicked: {msg}"),
        true,
    )
}

pub fn verdict_props(op: &'static str, failed_ever: bool) -> Vec<&'static str> {
    let mut p = vec!["C06"];
    if failed_ever {
        p.push("C07");
    }
    match op {
        "new" | "reset" | "validate" => p.push("C08"),
        "oneshot" => p.push("C10"),
        _ => {}
    }
    p
}

/// The shard array that every Engine primitive receives (`ShardsRefMut`, a public type that engines written outside the
/// crate use as well) against a flat model: ranges of whole shards are cleared whatever the shard size, sub-arrays
/// and strided views alias exactly the shards they name.
fn carrier_probe(ch: &mut Chooser, ctx: &mut Ctx) -> bool {
    use reed_solomon_simd::engine::ShardsRefMut;
    use std::ops::Bound;
    let count = 1 + ch.pick_usize("carrier.count", 9);
    let len64 = 1 + ch.pick_usize("carrier.len64", 3);
    let mut p = simcore::prng::Prng::new(ch.seed64("carrier.seed"));
    let mut data = vec![[0u8; 64]; count * len64 + 1];
    for c in &mut data {
        p.fill(c);
        c[0] |= 1; // no block is all zero before it is cleared
    }
    let model = data.clone();
    let a = p.below(count as u64 + 1) as usize;
    let b = a + p.below((count - a) as u64 + 1) as usize; // a <= b <= count
    let kind = p.below(7);
    let mid = p.below(count as u64 + 1) as usize;
    let res = ctx.guarded(false, || -> Result<(), String> {
        let mut v = ShardsRefMut::new(count, len64, &mut data);
        if v.len() != count || v.is_empty() {
            return Err(format!("len() = {}, is_empty() = {} for {count} shards", v.len(), v.is_empty()));
        }
        for i in 0..count {
            if v[i] != model[i * len64..(i + 1) * len64] {
                return Err(format!("index {i} of a {count} x {len64}-block array is not blocks {}..{}", i * len64, (i + 1) * len64));
            }
        }
        if count >= 2 {
            let dist = 1 + p.below((count - 1) as u64) as usize;
            let pos = p.below((count - dist) as u64) as usize;
            let (x, y) = v.dist2_mut(pos, dist);
            if x != &model[pos * len64..(pos + 1) * len64] || y != &model[(pos + dist) * len64..(pos + dist + 1) * len64] {
                return Err(format!("dist2_mut({pos}, {dist}) does not return shards {pos} and {}", pos + dist));
            }
        }
        if count >= 4 {
            let dist = 1 + p.below(((count - 1) / 3) as u64) as usize;
            let pos = p.below((count - 3 * dist) as u64) as usize;
            let (w, x, y, z) = v.dist4_mut(pos, dist);
            for (n, s) in [w, x, y, z].into_iter().enumerate() {
                let at = pos + n * dist;
                if s != &model[at * len64..(at + 1) * len64] {
                    return Err(format!("dist4_mut({pos}, {dist}): view {n} is not shard {at}"));
                }
            }
        }
        {
            let (lo, hi) = v.split_at_mut(mid);
            if lo.len() != mid || hi.len() != count - mid {
                return Err(format!("split_at_mut({mid}) of {count} shards gives {} + {}", lo.len(), hi.len()));
            }
            for i in 0..count {
                let got = if i < mid { &lo[i] } else { &hi[i - mid] };
                if got != &model[i * len64..(i + 1) * len64] {
                    return Err(format!("split_at_mut({mid}): shard {i} is not where it was"));
                }
            }
        }
        // which shards the range names
        let (from, to, text) = match kind {
            0 => { v.zero(..); (0, count, "..".to_string()) }
            1 => { v.zero(a..); (a, count, format!("{a}..")) }
            2 => { v.zero(..b); (0, b, format!("..{b}")) }
            3 => { v.zero(a..b); (a, b, format!("{a}..{b}")) }
            4 if b > a => { v.zero(a..=b - 1); (a, b, format!("{a}..={}", b - 1)) }
            5 if b > 0 => { v.zero(..=b - 1); (0, b, format!("..={}", b - 1)) }
            6 if a > 0 => { v.zero((Bound::Excluded(a - 1), Bound::Excluded(b))); (a, b, format!("({}, {b}) exclusive bounds", a - 1)) }
            _ => { v.zero(a..b); (a, b, format!("{a}..{b}")) }
        };
        drop(v);
        for (n, c) in data.iter().enumerate() {
            let inside = n >= from * len64 && n < to * len64;
            if inside && *c != [0u8; 64] {
                return Err(format!("zero({text}) on {count} shards of {len64} blocks leaves block {} of shard {} untouched", n % len64, n / len64));
            }
            if !inside && *c != model[n] {
                return Err(format!("zero({text}) on {count} shards of {len64} blocks changes block {n} outside the range"));
            }
        }
        Ok(())
    });
    ctx.count("probe.shard_array_contract");
    match res {
        Ok(Ok(())) => false,
        Ok(Err(why)) => ctx.viol(&["C04"], "shard-array-contract", format!("carrier/{}", why.split('(').next().unwrap_or("")), format!("ShardsRefMut: {why}"), false),
        Err(msg) => ctx.viol(&["C04", "C06"], "no-panic", format!("panic/carrier/{}", panic_sig(&msg)), format!("ShardsRefMut ({count} shards of {len64} blocks) panicked on valid arguments: {msg}"), false),
    }
}

/// Static probes of `supports` / `validate` / constructors against R4 (C08, C06).
fn static_probe(ch: &mut Chooser, ctx: &mut Ctx, kind: Kind, decoder: bool) -> bool {
    if ch.chance("probe.carrier", 1, 3) && carrier_probe(ch, ctx) {
        return true;
    }
    let fam = kind.layer.family();
    let corners = envelope::corners();
    // a seeded slice of the corner list x {-1,0,+1}^2, plus weird values
    let n = 1 + ch.pick_usize("probe.n", 6);
    for _ in 0..n {
        let (k, r) = match ch.weighted("probe.kind", &[3, 2, 2, 1]) {
            0 => {
                let (ck, cr) = corners[ch.pick_usize("probe.corner", corners.len())];
                let dk = ch.pick("probe.dk", 3) as isize - 1;
                let dr = ch.pick("probe.dr", 3) as isize - 1;
                (ck.wrapping_add_signed(dk), cr.wrapping_add_signed(dr))
            }
            1 => (gen_weird_count(ch), gen_weird_count(ch)),
            2 => {
                // log-uniform
                let a = ch.pick("probe.la", 18) as u32;
                let b = ch.pick("probe.lb", 18) as u32;
                (
                    (1usize << a).saturating_sub(ch.pick_usize("probe.sa", 3)) + ch.pick_usize("probe.xa", 1 << a.min(16)),
                    (1usize << b).saturating_sub(ch.pick_usize("probe.sb", 3)) + ch.pick_usize("probe.xb", 1 << b.min(16)),
                )
            }
            _ => gen_counts(ch, fam, 1),
        };
        let want = envelope::supported(fam, k, r);
        ctx.hash.feed_u64(k as u64 ^ (r as u64).rotate_left(32));
        ctx.count("probe.supports");
        ctx.distinct(&[0x5055, kind.layer as u64, u64::from(want), (k.min(70000) / 4096) as u64, (r.min(70000) / 4096) as u64]);
        let res = ctx.guarded(false, || if decoder { dec_supports(kind, k, r) } else { enc_supports(kind, k, r) });
        let res = match res {
            Ok(v) => v,
            Err(msg) => return report_panic(ctx, &kind.name(), "supports", &format!("supports({k},{r})"), false, &msg),
        };
        let layers_disagree = res.iter().any(|x| x.1 != res[0].1);
        for (name, got) in res {
            ev!(ctx, "  {name}({k},{r}) -> {got}");
            if got != want {
                return ctx.viol(
                    if layers_disagree && fam == Family::Default { &["C08", "C09"] } else { &["C08"] },
                    "envelope",
                    format!("supports/{}/{}", fam.name(), if want { "false-negative" } else { "false-positive" }),
                    format!("{name}({k}, {r}) returned {got}; the documented {} envelope says {want}", fam.name()),
                    false,
                );
            }
        }
        // validate with a valid or invalid size
        let b = if ch.chance("probe.badbytes", 1, 3) { gen_bad_bytes(ch) } else { gen_bytes(ch, 322) };
        let adm = config_adm(fam, k, r, b);
        let res = ctx.guarded(false, || if decoder { dec_validate(kind, k, r, b) } else { enc_validate(kind, k, r, b) });
        let res = match res {
            Ok(v) => v,
            Err(msg) => return report_panic(ctx, &kind.name(), "validate", &format!("validate({k},{r},{b})"), false, &msg),
        };
        for (name, got) in res {
            ctx.count("probe.validate");
            ev!(ctx, "  {name}({k},{r},{b}) -> {got:?}");
            if let Some(why) = judge(&got, &adm) {
                return ctx.viol(
                    &["C08", "C06"],
                    "verdict",
                    format!("verdict/validate/{}", got.as_ref().err().map_or("Ok", err_name)),
                    format!("{name}({k}, {r}, {b}) {why}"),
                    false,
                );
            }
        }
        // constructors must agree (only where construction is cheap or must fail)
        let cheap = !adm.is_empty() || (k + r <= 4096 && b <= 322) || ch.chance("probe.bigctor", 1, 16);
        if cheap && (adm.is_empty() || b <= 1 << 20 || !envelope::ok_bytes(b)) {
            let b_ctor = if adm.is_empty() && k + r > 4096 { 2 } else { b };
            let adm = config_adm(fam, k, r, b_ctor);
            ctx.count("probe.constructor");
            let res = ctx.guarded(false, || {
                let a = if decoder {
                    dec_new(kind, k, r, b_ctor, None).map(|_| ())
                } else {
                    enc_new(kind, k, r, b_ctor, None).map(|_| ())
                };
                let c = if decoder {
                    rate_decoder_ok(kind, k, r, b_ctor)
                } else {
                    rate_encoder_ok(kind, k, r, b_ctor)
                };
                (a, c)
            });
            let (a, c) = match res {
                Ok(v) => v,
                Err(msg) => return report_panic(ctx, &kind.name(), "new", &format!("new({k},{r},{b_ctor})"), false, &msg),
            };
            ev!(ctx, "  new({k},{r},{b_ctor}) -> {:?}", a);
            for (name, got) in [("new", Some(a)), ("Rate::encoder/decoder", c)] {
                let Some(got) = got else { continue };
                if let Some(why) = judge(&got, &adm) {
                    return ctx.viol(
                        &["C08", "C06"],
                        "verdict",
                        format!("verdict/new/{}", got.as_ref().err().map_or("Ok", err_name)),
                        format!("{}::{name}({k}, {r}, {b_ctor}) {why}", kind.name()),
                        false,
                    );
                }
            }
        }
    }
    false
}

/// A reset / new target: mostly valid, biased to same-config, shrink-then-grow, crossing the rate boundary.
fn gen_next_config(ch: &mut Chooser, kind: Kind, cur: (usize, usize, usize)) -> (usize, usize, usize) {
    let (k, r, b) = gen_next_config_any(ch, kind, cur);
    (k, r, clamp_bytes_for(kind, b))
}

fn gen_next_config_any(ch: &mut Chooser, kind: Kind, cur: (usize, usize, usize)) -> (usize, usize, usize) {
    match ch.weighted("next.kind", &[3, 3, 2, 2, 2]) {
        4 => {
            // same total need in another shape: half the counts with double the shard size, or the reverse
            // (a numeric coincidence that independent draws practically never produce)
            let (k, r, b) = cur;
            let fam = kind.layer.family();
            let grow_shards = ch.chance("next.reshape", 1, 2);
            if grow_shards && k % 2 == 0 && r % 2 == 0 && b <= 4096 && envelope::supported(fam, k / 2, r / 2) {
                (k / 2, r / 2, b * 2)
            } else if b % 4 == 0 && k + r <= 3000 && envelope::supported(fam, k * 2, r * 2) {
                (k * 2, r * 2, b / 2)
            } else {
                cur
            }
        }
        0 => gen_config_for(ch, kind),
        1 => cur,
        2 => {
            // swap counts (crosses the rate boundary for the default family), keep or change size
            let (k, r, b) = cur;
            if envelope::supported(kind.layer.family(), r, k) {
                (r, k, if ch.chance("next.keepb", 1, 2) { b } else { gen_bytes(ch, if k + r > 8 { 321 } else { 322 }) })
            } else {
                gen_config_for(ch, kind)
            }
        }
        _ => {
            // same counts, other shard size (shrink / grow of blocks, partial last block)
            let (k, r, _) = cur;
            (k, r, gen_bytes(ch, if k + r > 200 { 66 } else if k + r > 8 { 321 } else { 322 }))
        }
    }
}

/// A configuration next to `cur`: one of the counts halved, doubled or off by one, same shard size.
fn gen_sibling_config(ch: &mut Chooser, kind: Kind, cur: (usize, usize, usize)) -> (usize, usize, usize) {
    let (k, r, b) = cur;
    let fam = kind.layer.family();
    let vary = |n: usize, how: usize| match how {
        0 => n / 2,
        1 => n * 2,
        2 => n + 1,
        _ => n.saturating_sub(1),
    };
    for _ in 0..6 {
        let how = ch.pick_usize("sibling.how", 4);
        let (nk, nr) = if ch.chance("sibling.recovery", 2, 3) { (k, vary(r, how)) } else { (vary(k, how), r) };
        if nk >= 1 && nr >= 1 && nk + nr <= 3000 && envelope::supported(fam, nk, nr) {
            return (nk, nr, b);
        }
    }
    cur
}

fn gen_bad_config(ch: &mut Chooser, kind: Kind, cur: (usize, usize, usize)) -> (usize, usize, usize) {
    let fam = kind.layer.family();
    loop {
        let (k, r, b) = match ch.weighted("bad.kind", &[3, 3, 2]) {
            // supported counts, invalid size
            0 => {
                let (k, r) = if ch.chance("bad.samecounts", 1, 2) { (cur.0, cur.1) } else { gen_counts(ch, fam, 0) };
                (k, r, gen_bad_bytes(ch))
            }
            // unsupported counts, valid size
            1 => {
                let (k, r) = match ch.pick("bad.which", 3) {
                    0 => (gen_weird_count(ch), cur.1),
                    1 => (cur.0, gen_weird_count(ch)),
                    _ => (gen_weird_count(ch), gen_weird_count(ch)),
                };
                (k, r, gen_bytes(ch, 322))
            }
            // both
            _ => (gen_weird_count(ch), gen_weird_count(ch), gen_bad_bytes(ch)),
        };
        if !config_adm(fam, k, r, b).is_empty() {
            return (k, r, b);
        }
    }
}


// ======================================================================
// History dependence of a verdict (C05): when a call on a long-lived object panics or is judged wrong by R2,
// the current round is replayed on a freshly constructed object of the same kind; if the fresh object
// answers differently, the answer depended on what the object did before.

#[derive(Clone, Debug, PartialEq)]
pub enum Outcome {
    Ok,
    Err(Error),
    Panic,
}

/// Drops `value` by unwinding: a panic of the caller's own code while `value` is alive, caught by the caller.
pub fn unwind_through<T>(value: T) {
    let r = std::panic::catch_unwind(std::panic::AssertUnwindSafe(move || {
        let _alive = value;
        std::panic::resume_unwind(Box::new(crate::codec::CallerCrash));
    }));
    if let Err(p) = r {
        if !p.is::<crate::codec::CallerCrash>() {
            std::panic::resume_unwind(p);
        }
    }
}

pub fn outcome_of<T>(res: &Result<Result<T, Error>, String>) -> Outcome {
    match res {
        Ok(Ok(_)) => Outcome::Ok,
        Ok(Err(e)) => Outcome::Err(*e),
        Err(_) => Outcome::Panic,
    }
}

pub enum EncCall<'a> {
    Add(&'a [u8]),
    Encode,
    Reset(usize, usize, usize),
}

fn enc_history_props(ctx: &mut Ctx, st: &EncState, call: &EncCall, got: &Outcome) -> Vec<&'static str> {
    let mut extra = Vec::new();
    if layer_divergence_pending() {
        extra.push("C09"); // the ReedSolomonEncoder wrapper answered differently from the codec it is documented to be
    }
    if let (EncCall::Add(shard), Outcome::Err(Error::DifferentShardSize { .. } | Error::InvalidShardSize { .. })) = (call, got) {
        if shard.len() == st.cfg.2 {
            extra.push("C04"); // a shard of exactly the configured size is refused for its size
        }
    }
    if !(st.has_history || st.rounds > 0 || st.failed_ever) {
        return extra;
    }
    let (k, r, b) = st.cfg;
    let fresh = ctx.shadow(|| -> Result<(), Error> {
        let mut enc = enc_new(st.kind, k, r, b, None)?;
        for s in &st.shards {
            enc.add(s)?;
        }
        match call {
            EncCall::Add(shard) => enc.add(shard),
            EncCall::Encode => enc.encode().map(|_| ()),
            EncCall::Reset(k2, r2, b2) => enc.reset(*k2, *r2, *b2),
        }
    });
    let fresh = outcome_of(&fresh);
    ctx.count("r3.verdict_replays_on_fresh_object");
    if &fresh != got {
        extra.push("C05");
        if st.since_reset > 0 {
            extra.push("C12"); // the round follows a dropped result: the drop did not start a clean round
        }
    }
    extra
}

/// Engine dependence of a wrong answer (C03): the same round on a fresh object with another engine.
fn enc_engine_props(ctx: &mut Ctx, st: &EncState, call: &EncCall, got: &Outcome) -> Vec<&'static str> {
    if st.kind.layer == Layer::Rs || matches!(got, Outcome::Ok) {
        return Vec::new();
    }
    let other = Kind { layer: st.kind.layer, engine: if st.kind.engine == EngineKind::NoSimd { EngineKind::Naive } else { EngineKind::NoSimd } };
    let (k, r, b) = st.cfg;
    let run = |ctx: &mut Ctx, kind: Kind| {
        let res = ctx.shadow(|| -> Result<(), Error> {
            let mut enc = enc_new(kind, k, r, b, None)?;
            for s in &st.shards {
                enc.add(s)?;
            }
            match call {
                EncCall::Add(shard) => enc.add(shard),
                EncCall::Encode => enc.encode().map(|_| ()),
                EncCall::Reset(k2, r2, b2) => enc.reset(*k2, *r2, *b2),
            }
        });
        outcome_of(&res)
    };
    let same = run(ctx, st.kind);
    let oth = run(ctx, other);
    if same != oth {
        vec!["C03"]
    } else {
        Vec::new()
    }
}

pub enum DecCall<'a> {
    Add(bool, usize, &'a [u8]),
    Decode,
    Reset(usize, usize, usize),
}

fn dec_history_props(ctx: &mut Ctx, st: &DecState, call: &DecCall, got: &Outcome) -> Vec<&'static str> {
    let mut extra = Vec::new();
    if layer_divergence_pending() {
        extra.push("C09");
    }
    if let (DecCall::Add(_, _, shard), Outcome::Err(Error::DifferentShardSize { .. } | Error::InvalidShardSize { .. })) = (call, got) {
        if shard.len() == st.cfg.2 {
            extra.push("C04");
        }
    }
    if !(st.has_history || st.rounds > 0 || st.failed_ever) {
        return extra;
    }
    let (k, r, b) = st.cfg;
    let fresh = ctx.shadow(|| -> Result<(), Error> {
        let mut dec = dec_new(st.kind, k, r, b, None)?;
        for a in &st.adds {
            if a.is_rec {
                dec.add_recovery(a.index, &a.data)?;
            } else {
                dec.add_original(a.index, &a.data)?;
            }
        }
        match call {
            DecCall::Add(is_rec, index, shard) => {
                if *is_rec {
                    dec.add_recovery(*index, shard)
                } else {
                    dec.add_original(*index, shard)
                }
            }
            DecCall::Decode => dec.decode().map(|_| ()),
            DecCall::Reset(k2, r2, b2) => dec.reset(*k2, *r2, *b2),
        }
    });
    let fresh = outcome_of(&fresh);
    ctx.count("r3.verdict_replays_on_fresh_object");
    if &fresh != got {
        extra.push("C05");
        if st.since_reset > 0 {
            extra.push("C12");
        }
    }
    extra
}

fn dec_engine_props(ctx: &mut Ctx, st: &DecState, call: &DecCall, got: &Outcome) -> Vec<&'static str> {
    if st.kind.layer == Layer::Rs || matches!(got, Outcome::Ok) {
        return Vec::new();
    }
    let other = Kind { layer: st.kind.layer, engine: if st.kind.engine == EngineKind::NoSimd { EngineKind::Naive } else { EngineKind::NoSimd } };
    let (k, r, b) = st.cfg;
    let run = |ctx: &mut Ctx, kind: Kind| {
        let res = ctx.shadow(|| -> Result<(), Error> {
            let mut dec = dec_new(kind, k, r, b, None)?;
            for a in &st.adds {
                if a.is_rec {
                    dec.add_recovery(a.index, &a.data)?;
                } else {
                    dec.add_original(a.index, &a.data)?;
                }
            }
            match call {
                DecCall::Add(is_rec, index, shard) => {
                    if *is_rec {
                        dec.add_recovery(*index, shard)
                    } else {
                        dec.add_original(*index, shard)
                    }
                }
                DecCall::Decode => dec.decode().map(|_| ()),
                DecCall::Reset(k2, r2, b2) => dec.reset(*k2, *r2, *b2),
            }
        });
        outcome_of(&res)
    };
    let same = run(ctx, st.kind);
    let oth = run(ctx, other);
    if same != oth {
        vec!["C03"]
    } else {
        Vec::new()
    }
}

/// Selection-rule dependence of a wrong answer to `reset` / `new` (C09): a default-family codec must behave
/// like the dedicated codec the rule names for the target configuration.
fn twin_props(ctx: &mut Ctx, kind: Kind, decoder: bool, target: (usize, usize, usize), got: &Outcome) -> Vec<&'static str> {
    let (k, r, b) = target;
    if kind.layer.family() != Family::Default || !envelope::default_supported(k, r) {
        return Vec::new();
    }
    let twin = Kind { layer: Layer::dedicated(envelope::default_is_high(k, r)), engine: if kind.layer == Layer::Rs { EngineKind::Default } else { kind.engine } };
    let res = ctx.shadow(|| if decoder { dec_new(twin, k, r, b, None).map(|_| ()) } else { enc_new(twin, k, r, b, None).map(|_| ()) });
    if &outcome_of(&res) != got {
        vec!["C09"]
    } else {
        Vec::new()
    }
}

fn report_panic_x(ctx: &mut Ctx, kind: &str, op: &'static str, call: &str, failed_ever: bool, msg: &str, extra: &[&'static str]) -> bool {
    let mut props = panic_props(op, failed_ever);
    for e in extra {
        if !props.contains(e) {
            props.push(e);
        }
    }
    ctx.viol(
        &props,
        "no-panic",
        format!("panic/{op}/{}{}", panic_sig(msg), if failed_ever { "/after-failed-call" } else { "" }),
        format!("{kind}.{call} panicked: {msg}{}", if extra.contains(&"C05") { " (a freshly constructed object given the same round does not)" } else { "" }),
        true,
    )
}

fn verdict_props_x(op: &'static str, failed_ever: bool, extra: &[&'static str]) -> Vec<&'static str> {
    let mut props = verdict_props(op, failed_ever);
    for e in extra {
        if !props.contains(e) {
            props.push(e);
        }
    }
    props
}

// ======================================================================
// ENCODER HISTORIES

struct EncState {
    kind: Kind,
    cfg: (usize, usize, usize),
    shards: Vec<Vec<u8>>,
    data_seed: u64,
    data_mode: u8,
    has_history: bool,
    failed_round: bool,
    failed_ever: bool,
    held: Need,
    rounds: u32,
    /// successful rounds since construction or the last explicit reset (each ended with a dropped result)
    since_reset: u32,
    /// a result of this object was leaked: the next operation is an explicit reset
    must_reset: bool,
}

fn enc_need(kind: Kind, cfg: (usize, usize, usize)) -> Need {
    envelope::encoder_need(envelope::effective_high(kind.layer.family(), cfg.0, cfg.1), cfg.0, cfg.1, cfg.2)
}

fn covers(held: Need, need: Need) -> bool {
    need.blocks <= held.blocks && need.bitmap_bits <= held.bitmap_bits
}

fn grow(held: Need, need: Need) -> Need {
    Need {
        blocks: held.blocks.max(need.blocks),
        bitmap_bits: held.bitmap_bits.max(need.bitmap_bits),
    }
}

/// Marathon histories: one run in 800 keeps one object for tens of thousands of rounds (tiny configuration, mostly
/// idle resets between two stretches of ordinary random operations), so that bookkeeping which only repeats after
/// 2^8 or 2^16 rounds (generation counters, round stamps) comes round again while the object is being checked.
fn gen_marathon(ch: &mut Chooser, kind: Kind) -> Option<((usize, usize, usize), usize)> {
    if !ch.chance("marathon", 1, 800) {
        return None;
    }
    let cfg = (1 + ch.pick_usize("marathon.k", 4), 1 + ch.pick_usize("marathon.r", 4), [2usize, 64, 66][ch.pick_usize("marathon.b", 3)]);
    let cfg = if envelope::supported(kind.layer.family(), cfg.0, cfg.1) { cfg } else { (2, 2, cfg.2) };
    // the idle stretch is a little longer than 2^8 or 2^16 rounds; see `marathon_marks`
    let idle = if ch.chance("marathon.short", 1, 3) { 256 } else { 65_536 } + 40 + ch.pick_usize("marathon.idle", 20);
    Some((cfg, idle))
}

/// In which idle round each of `n` positions gets its one and only mark (a shard added in a round that is then
/// abandoned): `period - (0..5)` rounds before the end of the idle stretch, for a period of 2^8, 2^8 - 1, 2^16 or
/// 2^16 - 1, so that a round stamp or generation counter of such a period that is compared for equality comes
/// back to the mark's value within the first few rounds after the idle stretch, before the position is used again.
fn marathon_marks(ch: &mut Chooser, idle: usize, n: usize) -> Vec<usize> {
    let period = if idle < 1000 { 256 } else { 65_536 };
    (0..n).map(|_| idle - (period - ch.pick_usize("marathon.period", 2)) + ch.pick_usize("marathon.due", 5)).collect()
}

pub fn run_encoder(ch: &mut Chooser, ctx: &mut Ctx) {
    let _ = take_layer_divergence();
    let mut pool = Pool::default();
    let kind = gen_kind(ch);
    let marathon = gen_marathon(ch, kind);
    let cfg = marathon.map_or_else(|| gen_config_for(ch, kind), |m| m.0);
    ctx.arm_poison(ch.seed64("poison.seed"), ch.weighted("poison.mode", &[1, 6, 2]) as u8);
    // F22: one history in six migrates (about every other guarded call runs on the companion OS thread); not the marathons (cost)
    ctx.migrant = marathon.is_none() && ch.chance("migrant", 1, 6);
    if ctx.migrant {
        ctx.count("fault.F22_history_migrates_between_threads");
    }
    ev!(ctx, "encoder history: {} cfg={cfg:?} poison_mode={} migrant={}", kind.name(), ctx.poison_mode, ctx.migrant);
    ctx.hash.feed_u64(kind.layer as u64 * 16 + kind.engine as u64);

    let made = ctx.guarded(true, || enc_new(kind, cfg.0, cfg.1, cfg.2, None));
    let mut obj: Box<dyn DynEncoder> = match made {
        Ok(Ok(o)) => o,
        Ok(Err(e)) => {
            ctx.viol(&["C06", "C08"], "verdict", format!("verdict/new/{}", err_name(&e)), format!("{}::new{cfg:?} returned Err({e:?}) for a supported configuration", kind.name()), true);
            return;
        }
        Err(msg) => {
            report_panic(ctx, &kind.name(), "new", &format!("new{cfg:?}"), false, &msg);
            return;
        }
    };
    let mut st = EncState {
        kind,
        cfg,
        shards: Vec::new(),
        data_seed: ch.seed64("data.seed"),
        data_mode: ch.weighted("data.mode", &[8, 1, 1, 3, 3]) as u8,
        has_history: false,
        failed_round: false,
        failed_ever: false,
        held: enc_need(kind, cfg),
        rounds: 0,
        since_reset: 0,
        must_reset: false,
    };

    // mostly short histories; one in twenty is long (many consecutive rounds and resets on one object)
    let n_ops = if marathon.is_some() { 280 } else if cfg.0 + cfg.1 <= 64 && cfg.2 <= 2048 && ch.chance("ops.long", 1, 20) { 60 + ch.pick_usize("ops.many", 240) } else { 4 + ch.pick_usize("ops", 40) };
    for op_no in 0..n_ops {
        if ctx.stop {
            return;
        }
        if st.cfg.2 > 100_000 && op_no >= 14 {
            break; // histories on shards of 128 KiB and more stay short (cost)
        }
        if let (Some((_, idle)), 30, true) = (marathon, op_no, st.cfg.0 + st.cfg.1 <= 64 && st.cfg.2 <= 128) {
            // the idle stretch: resets to the configuration the object has, now and then with a shard added before
            let (k, r, b) = st.cfg;
            ctx.count("probe.marathon_histories");
            let marks = marathon_marks(ch, idle, k);
            let shard = gen_shard(st.data_seed, 0, 0, b);
            for i in 0..idle {
                let adds = marks.iter().filter(|m| **m == i).count();
                let res = ctx.guarded(true, || {
                    for _ in 0..adds {
                        let _ = obj.add(&shard);
                    }
                    obj.reset(k, r, b)
                });
                if !matches!(res, Ok(Ok(()))) {
                    ctx.viol(&verdict_props("reset", st.failed_ever), "verdict", "verdict/reset/marathon".into(), format!("{}{:?}.reset{:?} (idle reset number {i} of a marathon history) -> {res:?}", st.kind.name(), st.cfg, st.cfg), true);
                    return;
                }
            }
            ev!(ctx, "#{op_no} {idle} idle resets to {:?}", st.cfg);
            ctx.hash.feed_u64(idle as u64);
            ctx.count_n("probe.marathon_idle_rounds", idle as u64);
            st.since_reset = 0;
            st.shards.clear();
            st.failed_round = false;
            st.has_history = true;
        }
        let (k, _r, b) = st.cfg;
        let fill = st.shards.len();
        let fill_class = if fill == 0 { 0 } else if fill == k { 3 } else if fill + 1 == k { 2 } else { 1 };
        let op = if st.must_reset { 3 } else { ch.weighted("enc.op", &[30, 6, 22, 8, 6, 5, 4, 1]) };
        ctx.hash.feed_u64(op as u64);
        ctx.distinct(&[0xE0, st.kind.layer as u64, st.kind.engine as u64, fill_class, op as u64, u64::from(st.failed_round), u64::from(st.has_history)]);
        match op {
            // ---------------------------------------------------- add valid (batch)
            0 => {
                let want = match ch.weighted("enc.add.n", &[3, 2, 1]) {
                    0 => 1,
                    1 => k.saturating_sub(fill).max(1),
                    _ => 1 + ch.pick_usize("enc.add.cnt", k),
                };
                for _ in 0..want {
                    let idx = st.shards.len();
                    let shard = gen_shard(st.data_seed, st.data_mode, idx, b);
                    let adm = if idx >= k { vec![Error::TooManyOriginalShards { original_count: k }] } else { vec![] };
                    let mut acc = AllocStats::default();
                    let res = ctx.guarded(true, || meas(&mut acc, || obj.add(&shard)));
                    let res = match res {
                        Ok(v) => v,
                        Err(msg) => {
                            let extra = enc_history_props(ctx, &st, &EncCall::Add(&shard), &Outcome::Panic);
                            report_panic_x(ctx, &st.kind.name(), "add", &format!("add_original_shard(len {b}) #{idx}"), st.failed_ever, &msg, &extra);
                            return;
                        }
                    };
                    ev!(ctx, "#{op_no} add_original_shard([{}; {b}]) #{idx} -> {res:?}", hex_prefix(&shard));
                    ctx.hash.feed_u64(res.as_ref().err().map_or(0, err_code));
                    if let Some(why) = judge(&res, &adm) {
                        let extra = enc_history_props(ctx, &st, &EncCall::Add(&shard), &res.map_or_else(Outcome::Err, |()| Outcome::Ok));
                        ctx.viol(&verdict_props_x("add", st.failed_ever, &extra), "verdict", format!("verdict/enc.add/{}", res.as_ref().err().map_or("Ok", err_name)), format!("{}{:?}.add_original_shard(valid shard #{idx}) {why}", st.kind.name(), st.cfg), true);
                        return;
                    }
                    if alloc_check(ctx, st.kind, "add_original_shard", "round operations never allocate", &acc) {
                        return;
                    }
                    if res.is_ok() {
                        st.shards.push(shard);
                        ctx.count("enc.add_ok");
                    } else {
                        st.failed_round = true;
                        st.failed_ever = true;
                        ctx.count("fault.F10.too_many");
                        break;
                    }
                }
            }
            // ---------------------------------------------------- add with wrong length
            1 => {
                let len = match ch.pick("enc.badlen", 6) {
                    0 => 0,
                    1 => b + 1,
                    2 => b - 1,
                    3 => b + 2,
                    4 => b.saturating_sub(2),
                    _ => 64 * (1 + ch.pick_usize("enc.badlen.blocks", 4)),
                };
                if len == b {
                    continue;
                }
                let shard = vec![0xA5u8; len];
                let mut adm = vec![Error::DifferentShardSize { shard_bytes: b, got: len }];
                if fill == k {
                    adm.push(Error::TooManyOriginalShards { original_count: k });
                }
                let res = ctx.guarded(true, || obj.add(&shard));
                let res = match res {
                    Ok(v) => v,
                    Err(msg) => {
                        let extra = enc_history_props(ctx, &st, &EncCall::Add(&shard), &Outcome::Panic);
                        report_panic_x(ctx, &st.kind.name(), "add", &format!("add_original_shard(len {len})"), st.failed_ever, &msg, &extra);
                        return;
                    }
                };
                ev!(ctx, "#{op_no} add_original_shard(len {len}) [bad length] -> {res:?}");
                ctx.hash.feed_u64(res.as_ref().err().map_or(0, err_code));
                ctx.count("fault.F10.bad_length");
                if let Some(why) = judge(&res, &adm) {
                    let extra = enc_history_props(ctx, &st, &EncCall::Add(&shard), &res.map_or_else(Outcome::Err, |()| Outcome::Ok));
                    ctx.viol(&verdict_props_x("add", st.failed_ever, &extra), "verdict", format!("verdict/enc.add-badlen/{}", res.as_ref().err().map_or("Ok", err_name)), format!("{}{:?}.add_original_shard(shard of {len} bytes) {why}", st.kind.name(), st.cfg), true);
                    return;
                }
                st.failed_round = true;
                st.failed_ever = true;
            }
            // ---------------------------------------------------- encode
            2 => {
                if enc_encode(ch, ctx, &mut *obj, &mut st, op_no) {
                    return;
                }
            }
            // ---------------------------------------------------- reset (valid)
            3 => {
                let next = if st.must_reset && ch.chance("leak.samecfg", 1, 2) {
                    st.cfg
                } else if marathon.is_some() {
                    gen_sibling_config(ch, st.kind, st.cfg)
                } else {
                    gen_next_config(ch, st.kind, st.cfg)
                };
                let need = enc_need(st.kind, next);
                let mut acc = AllocStats::default();
                let res = ctx.guarded(true, || meas(&mut acc, || obj.reset(next.0, next.1, next.2)));
                let res = match res {
                    Ok(v) => v,
                    Err(msg) => {
                        let extra = enc_history_props(ctx, &st, &EncCall::Reset(next.0, next.1, next.2), &Outcome::Panic);
                        report_panic_x(ctx, &st.kind.name(), "reset", &format!("reset{next:?}"), st.failed_ever, &msg, &extra);
                        return;
                    }
                };
                ev!(ctx, "#{op_no} reset{next:?} -> {res:?}");
                ctx.hash.feed_u64(res.as_ref().err().map_or(0, err_code));
                if let Some(why) = judge(&res, &[]) {
                    { let got = res.map_or_else(Outcome::Err, |()| Outcome::Ok); let mut extra = enc_history_props(ctx, &st, &EncCall::Reset(next.0, next.1, next.2), &got); extra.extend(twin_props(ctx, st.kind, false, next, &got)); ctx.viol(&verdict_props_x("reset", st.failed_ever, &extra), "verdict", format!("verdict/reset/{}", res.as_ref().err().map_or("Ok", err_name)), format!("{}{:?}.reset{next:?} {why}", st.kind.name(), st.cfg), true); }
                    return;
                }
                if covers(st.held, need) {
                    ctx.count("probe.reset_within_held");
                    if alloc_check(ctx, st.kind, &format!("reset{next:?}"), "the working space already held covers the new configuration", &acc) {
                        return;
                    }
                } else {
                    ctx.count("probe.reset_growing");
                }
                if envelope::effective_high(st.kind.layer.family(), next.0, next.1) != envelope::effective_high(st.kind.layer.family(), st.cfg.0, st.cfg.1) {
                    ctx.count("probe.reset_crosses_rate");
                }
                st.held = grow(st.held, need);
                st.cfg = next;
                st.since_reset = 0;
                st.must_reset = false;
                st.shards.clear();
                st.failed_round = false;
                st.has_history = true;
                st.data_seed = ch.seed64("data.seed");
                st.data_mode = ch.weighted("data.mode", &[8, 1, 1, 3, 3]) as u8;
            }
            // ---------------------------------------------------- reset (invalid) : must fail and change nothing
            4 => {
                let next = gen_bad_config(ch, st.kind, st.cfg);
                let adm = config_adm(st.kind.layer.family(), next.0, next.1, next.2);
                let res = ctx.guarded(true, || obj.reset(next.0, next.1, next.2));
                let res = match res {
                    Ok(v) => v,
                    Err(msg) => {
                        let extra = enc_history_props(ctx, &st, &EncCall::Reset(next.0, next.1, next.2), &Outcome::Panic);
                        report_panic_x(ctx, &st.kind.name(), "reset", &format!("reset{next:?}"), st.failed_ever, &msg, &extra);
                        return;
                    }
                };
                ev!(ctx, "#{op_no} reset{next:?} [invalid] -> {res:?}");
                ctx.hash.feed_u64(res.as_ref().err().map_or(0, err_code));
                ctx.count(if envelope::supported(st.kind.layer.family(), next.0, next.1) { "fault.F10.reset_bad_size" } else { "fault.F10.reset_bad_counts" });
                if let Some(why) = judge(&res, &adm) {
                    { let got = res.map_or_else(Outcome::Err, |()| Outcome::Ok); let mut extra = enc_history_props(ctx, &st, &EncCall::Reset(next.0, next.1, next.2), &got); extra.extend(twin_props(ctx, st.kind, false, next, &got)); ctx.viol(&verdict_props_x("reset", st.failed_ever, &extra), "verdict", format!("verdict/reset-invalid/{}", res.as_ref().err().map_or("Ok", err_name)), format!("{}{:?}.reset{next:?} {why}", st.kind.name(), st.cfg), true); }
                    return;
                }
                st.failed_round = true;
                st.failed_ever = true;
            }
            // ---------------------------------------------------- recycle working space through into_parts / new(Some(work))
            5 => {
                if ch.chance("recycle.xrate", 1, 12) && cross_rate_refused(ch, ctx, false) {
                    return;
                }
                let new_kind = if st.kind.layer == Layer::Rs || ch.chance("recycle.samekind", 1, 3) { st.kind } else { gen_kind(ch) };
                let old = std::mem::replace(&mut obj, Box::new(NullEnc));
                let given = ctx.guarded(false, || old.into_work());
                match given {
                    Ok(Some(w)) => pool.enc.push((w, st.held)),
                    Ok(None) => {}
                    Err(msg) => {
                        report_panic(ctx, &st.kind.name(), "into_parts", "into_parts()", st.failed_ever, &msg);
                        return;
                    }
                }
                let next = if marathon.is_some() { gen_sibling_config(ch, new_kind, st.cfg) } else { gen_next_config(ch, new_kind, st.cfg) };
                let next = if envelope::supported(new_kind.layer.family(), next.0, next.1) { next } else { gen_config_for(ch, new_kind) };
                let (work, held) = if new_kind.layer != Layer::Rs && !pool.enc.is_empty() && ch.chance("recycle.usepool", 3, 4) {
                    let i = ch.pick_usize("recycle.which", pool.enc.len());
                    let (w, h) = pool.enc.swap_remove(i);
                    (Some(w), h)
                } else {
                    (None, Need::default())
                };
                let recycled = work.is_some();
                let need = enc_need(new_kind, next);
                let res = ctx.guarded(true, || enc_new(new_kind, next.0, next.1, next.2, work));
                let acc = take_ctor_stats();
                let res = match res {
                    Ok(v) => v,
                    Err(msg) => {
                        let fresh_ok = recycled && matches!(ctx.shadow(|| enc_new(new_kind, next.0, next.1, next.2, None).map(|_| ())), Ok(Ok(())));
                        report_panic_x(ctx, &new_kind.name(), "new", &format!("new{next:?} on recycled work"), false, &msg, if fresh_ok { &["C05"] } else { &[] });
                        return;
                    }
                };
                ev!(ctx, "#{op_no} into_parts -> {}::new{next:?} work={} -> {:?}", new_kind.name(), if recycled { "recycled" } else { "None" }, res.as_ref().map(|_| ()));
                match res {
                    Ok(o) => obj = o,
                    Err(e) => {
                        let fresh_ok = recycled && matches!(ctx.shadow(|| enc_new(new_kind, next.0, next.1, next.2, None).map(|_| ())), Ok(Ok(())));
                        ctx.viol(if fresh_ok { &["C06", "C08", "C05"] } else { &["C06", "C08"] }, "verdict", format!("verdict/new/{}", err_name(&e)), format!("{}::new{next:?} returned Err({e:?}) for a supported configuration", new_kind.name()), true);
                        return;
                    }
                }
                if recycled {
                    ctx.count("probe.work_changed_owner");
                    if covers(held, need) {
                        ctx.count("probe.recycle_within_held");
                        // constructing the engine is outside the region only for its tables; the Box of DefaultEngine is < 64 bytes
                        if alloc_check(ctx, new_kind, &format!("new{next:?} on recycled working space"), "the handed-over working space already covers the configuration", &acc) {
                            return;
                        }
                    }
                }
                st = EncState {
                    kind: new_kind,
                    cfg: next,
                    shards: Vec::new(),
                    data_seed: ch.seed64("data.seed"),
                    data_mode: ch.weighted("data.mode", &[8, 1, 1, 3, 3]) as u8,
                    has_history: recycled,
                    failed_round: false,
                    failed_ever: false,
                    held: grow(held, need),
                    rounds: 0,
                    since_reset: 0,
                    must_reset: false,
                };
            }
            // ---------------------------------------------------- a shard whose as_ref() is not pure (ends the history)
            7 => {
                let first = gen_shard(st.data_seed, 0, fill, b);
                if fill < k && ch.chance("enc.flaky.panics", 1, 2) {
                    // the shard's as_ref() panics and the caller catches it (fault F19): as if the call had not been made
                    let flaky = Flaky::panicking(&first);
                    let res = ctx.guarded(true, || catch_caller_crash(|| obj.add_flaky(&flaky)));
                    ctx.count("fault.F19.as_ref_panics");
                    match res {
                        Ok(None) => {
                            ev!(ctx, "#{op_no} add_original_shard(shard whose as_ref() panics) -> unwound");
                            continue;
                        }
                        Ok(Some(r)) => {
                            ev!(ctx, "#{op_no} add_original_shard(shard whose as_ref() panics) -> {r:?} without looking at the shard");
                            return;
                        }
                        Err(msg) => {
                            report_panic(ctx, &st.kind.name(), "add", "add_original_shard(shard whose as_ref() panics)", st.failed_ever, &msg);
                            return;
                        }
                    }
                }
                let later_len = [b + 2, b.saturating_sub(2), 0, b, 1][ch.pick_usize("enc.flaky.len", 5)];
                let later = vec![0x3Cu8; later_len];
                let flaky = Flaky::new(&first, &later);
                let res = ctx.guarded(true, || obj.add_flaky(&flaky));
                ctx.count("fault.F10.impure_as_ref");
                let res = match res {
                    Ok(v) => v,
                    Err(msg) => {
                        report_panic(ctx, &st.kind.name(), "add", &format!("add_original_shard(shard whose as_ref() returns {b} bytes first and {later_len} bytes later)"), st.failed_ever, &msg);
                        return;
                    }
                };
                ev!(ctx, "#{op_no} add_original_shard(impure as_ref: {b} then {later_len} bytes) -> {res:?}");
                let mut adm = vec![];
                if fill == k {
                    adm.push(Error::TooManyOriginalShards { original_count: k });
                }
                if later_len != b {
                    adm.push(Error::DifferentShardSize { shard_bytes: b, got: later_len });
                }
                if let Err(e) = &res {
                    if !adm.contains(e) {
                        ctx.viol(&verdict_props("add", st.failed_ever), "verdict", format!("verdict/enc.add-impure/{}", err_name(e)), format!("{}{:?}.add_original_shard(shard whose as_ref() returns {b} bytes first and {later_len} bytes later) returned Err({e:?}), which describes neither slice; truthful errors: {adm:?}", st.kind.name(), st.cfg), true);
                    }
                } else if fill == k {
                    ctx.viol(&verdict_props("add", st.failed_ever), "verdict", "verdict/enc.add-impure/Ok".into(), format!("{}{:?}.add_original_shard on a full encoder returned Ok", st.kind.name(), st.cfg), true);
                }
                return;
            }
            // ---------------------------------------------------- static probes
            _ => {
                if static_probe(ch, ctx, st.kind, false) {
                    return;
                }
            }
        }
        if let Some(d) = take_layer_divergence() {
            if ctx.viol(&["C09"], "api-layers-agree", format!("layers/{}", d.split(':').next().unwrap_or("")), format!("{:?}: {d}", st.cfg), true) {
                return;
            }
        }
        if lockstep_check(ctx, st.kind, "encoder history") {
            return;
        }
    }
}

struct NullEnc;
impl DynEncoder for NullEnc {
    fn add(&mut self, _: &[u8]) -> Result<(), Error> {
        unreachable!()
    }
    fn add_flaky(&mut self, _: &Flaky) -> Result<(), Error> {
        unreachable!()
    }
    fn encode(&mut self) -> Result<reed_solomon_simd::EncoderResult<'_>, Error> {
        unreachable!()
    }
    fn reset(&mut self, _: usize, _: usize, _: usize) -> Result<(), Error> {
        unreachable!()
    }
    fn into_work(self: Box<Self>) -> Option<EncoderWork> {
        None
    }
}

/// `encode` at any fill level, with all result oracles. Returns `true` if the run must stop.
fn enc_encode(ch: &mut Chooser, ctx: &mut Ctx, obj: &mut dyn DynEncoder, st: &mut EncState, op_no: usize) -> bool {
    let (k, r, b) = st.cfg;
    let fill = st.shards.len();
    let adm = if fill < k {
        vec![Error::TooFewOriginalShards { original_count: k, original_received_count: fill }]
    } else {
        vec![]
    };
    let probe_seed = ch.seed64("probe.seed");
    let crash_drop = ch.chance("enc.crashdrop", 1, 8);
    if crash_drop {
        ctx.count("fault.F14.caller_unwinds_through_result");
    }
    let leak = ch.chance("enc.leak", 1, 16);
    let mut acc = AllocStats::default();
    let mut stage = "encode";
    let out = ctx.guarded(true, || {
        let res = meas(&mut acc, || obj.encode());
        match res {
            Err(e) => Err(e),
            Ok(result) => {
                stage = "result";
                let probed = probe_encoder_result(&result, r, b, probe_seed);
                // measured accessor sweep without copying, then the drop
                meas(&mut acc, || {
                    let mut n = 0usize;
                    for s in result.recovery_iter() {
                        n += s.len();
                    }
                    n += result.recovery(0).map_or(0, <[u8]>::len);
                    std::hint::black_box(n);
                });
                stage = "drop";
                if leak {
                    // the result is leaked (its destructor never runs); the only thing the caller may do with the
                    // object afterwards is an explicit reset, which must start from scratch like any reset
                    std::mem::forget(result);
                } else if crash_drop {
                    // the caller panics while the result is alive and catches the panic further up: the result is
                    // dropped by unwinding, which must start a new round like any other drop
                    unwind_through(result);
                } else {
                    meas(&mut acc, || drop(result));
                }
                Ok(probed)
            }
        }
    });
    let out = match out {
        Ok(v) => v,
        Err(msg) => {
            let op = match stage {
                "encode" => "encode",
                "result" => "result",
                _ => "drop",
            };
            // history dependence is only judged for the encode call itself (the replay does not probe results)
            let mut extra = if stage == "encode" { enc_history_props(ctx, st, &EncCall::Encode, &Outcome::Panic) } else { Vec::new() };
            if stage == "encode" {
                extra.extend(enc_engine_props(ctx, st, &EncCall::Encode, &Outcome::Panic));
            }
            return report_panic_x(ctx, &st.kind.name(), op, &format!("encode() [{stage}] with {fill}/{k} shards"), st.failed_ever, &msg, &extra);
        }
    };
    ev!(ctx, "#{op_no} encode() with {fill}/{k} shards -> {:?}", out.as_ref().map(|p| p.as_ref().map(|v| v.len())));
    ctx.hash.feed_u64(out.as_ref().err().map_or(0, err_code));
    if let Some(why) = judge(&out, &adm) {
        let got = out.as_ref().map_or_else(|e| Outcome::Err(*e), |_| Outcome::Ok);
        let mut extra = enc_history_props(ctx, st, &EncCall::Encode, &got);
        extra.extend(enc_engine_props(ctx, st, &EncCall::Encode, &got));
        return ctx.viol(&verdict_props_x("encode", st.failed_ever, &extra), "verdict", format!("verdict/encode/{}", out.as_ref().err().map_or("Ok", err_name)), format!("{}{:?}.encode() with {fill} of {k} shards added {why}", st.kind.name(), st.cfg), true);
    }
    let probed = match out {
        Err(_) => {
            st.failed_round = true;
            st.failed_ever = true;
            ctx.count("fault.F10.early_encode");
            return false;
        }
        Ok(p) => p,
    };
    ctx.count("enc.rounds");
    if leak {
        st.must_reset = true;
        ctx.count("fault.F18.result_leaked_then_reset");
        // two more calls before the reset (see the decoder): the round is either still there or gone, not half of each
        // (not on the wrapper layer: its API-layer twin drops its own result, so the two legitimately differ here)
        if probed.is_ok() && st.kind.layer != Layer::Rs && ch.chance("enc.leak.probe", 1, 2) {
            ctx.count("probe.calls_between_leak_and_reset");
            let shard = gen_shard(st.data_seed ^ 0x1eac, 0, 0, b);
            let first = ctx.guarded(true, || obj.add(&shard));
            let intact = match first {
                Ok(Err(Error::TooManyOriginalShards { original_count })) if original_count == k => true,
                Ok(Ok(())) => false,
                other => {
                    return ctx.viol(&["C06", "C05"], "verdict", "verdict/after-leak/add".into(), format!("{}{:?}: after a leaked result, one more add -> {other:?}; expected TooManyOriginalShards (round still there) or Ok (round gone)", st.kind.name(), st.cfg), true);
                }
            };
            let second = ctx.guarded(true, || obj.encode().map(|res| res.recovery_iter().take(st.cfg.1 + 1).map(<[u8]>::to_vec).collect::<Vec<_>>()));
            let ok = match (&second, intact) {
                // (which bytes a second encode returns is not judged: the first one transformed the working space in place)
                (Ok(Ok(_)), true) => true,
                (Ok(got), false) => match got {
                    Ok(_) => k == 1,
                    Err(e) => k != 1 && *e == Error::TooFewOriginalShards { original_count: k, original_received_count: 1 },
                },
                _ => false,
            };
            if !ok {
                return ctx.viol(&["C06", "C05"], "verdict", "verdict/after-leak/encode".into(), format!("{}{:?}: after a leaked result the encoder answered one more add with {} and then encode() with {:?}: neither 'the round is still there' nor 'the round is gone'", st.kind.name(), st.cfg, if intact { "TooManyOriginalShards" } else { "Ok" }, second.as_ref().map(|r| r.as_ref().map(Vec::len))), true);
            }
        }
    }
    if b % 64 != 0 {
        ctx.count("probe.partial_last_block");
    }
    if st.has_history || st.rounds > 0 {
        ctx.count("probe.round_on_reused_object");
    }
    if st.failed_round {
        ctx.count("probe.round_after_failed_call");
    }
    if alloc_check(ctx, st.kind, "encode() / result access / result drop", "round operations never allocate", &acc) {
        return true;
    }
    let recovery = match probed {
        Ok(v) => v,
        Err(why) => {
            // a recovery shard handed out under the wrong index (or another shard under that index) is also not the shard
            // the code defines for that index (C02), whichever accessor or iterator adaptor delivered it
            let props: &[&'static str] = if why.contains(" bytes, expected") { &["C12", "C04"] } else if why.contains("disagree") || why.contains("differs") { &["C12", "C02"] } else { &["C12"] };
            let mut props = props.to_vec();
            // history dependence: a freshly built object given the same round passes the same probe
            let (kk, rr, bb) = st.cfg;
            if (st.has_history || st.rounds > 0) && matches!(ctx.shadow(|| fresh_encoder_probe_ok(st.kind, kk, rr, bb, &st.shards, probe_seed)), Ok(true)) {
                props.push("C05");
            }
            let props = &props[..];
            return ctx.viol(props, "result-contract", format!("enc-result/{}", why.split_whitespace().next().unwrap_or("")), format!("{}{:?} EncoderResult: {why}", st.kind.name(), st.cfg), true);
        }
    };
    ctx.hash.feed_u64(digest(&recovery));
    if ctx.stats.samples.len() < 2 {
        ctx.stats.samples.push(format!("{}{:?} round {} encode after {} ops -> recovery digest {:016x}", st.kind.name(), st.cfg, st.rounds, op_no, digest(&recovery)));
    }
    let high = envelope::effective_high(st.kind.layer.family(), k, r);
    let reused = st.has_history || st.rounds > 0 || st.failed_round;

    // R1 (C02)
    let (mism, compared) = check_r1(high, k, r, &st.shards, &recovery, probe_seed);
    ctx.count_n("r1.symbols_compared", compared as u64);
    if let Some(why) = mism {
        let mut props = vec!["C02"];
        if st.kind.layer.family() == Family::Default {
            // does the other rate explain the bytes? then the selection rule is what broke
            let other_ok = envelope::supported(if high { Family::Low } else { Family::High }, k, r) && check_r1(!high, k, r, &st.shards, &recovery, probe_seed).0.is_none();
            if other_ok {
                props = vec!["C09"];
            }
        }
        if ctx.viol(&props, "r1-code", "r1/encode".to_string(), format!("{}{:?}: {why}", st.kind.name(), st.cfg), false) {
            return true;
        }
    }

    // R3 fresh object of the same kind (C05, C07)
    let fresh = ctx.shadow(|| fresh_encode(st.kind, k, r, b, &st.shards));
    match fresh {
        Ok(Ok(f)) => {
            ctx.count("r3.shadow_rounds");
            if f != recovery {
                let j = f.iter().zip(recovery.iter()).position(|(a, c)| a != c).unwrap_or(0);
                let mut props = vec!["C05"];
                if st.failed_round {
                    props.push("C07");
                }
                if st.since_reset > 0 {
                    props.push("C12"); // the round follows a dropped result: the drop did not start a clean round
                }
                if ctx.viol(&props, "r3-fresh-object", format!("r3/encode/{}", if reused { "reused" } else { "first-use" }), format!("{}{:?}: recovery {j} differs from a freshly constructed encoder given the same {k} shards (object history: rounds={}, reused={}, failed call this round={})", st.kind.name(), st.cfg, st.rounds, st.has_history, st.failed_round), false) {
                    return true;
                }
            }
        }
        Ok(Err(why)) => {
            if ctx.viol(&["C06"], "shadow-failed", "shadow/enc".into(), format!("fresh {} failed on valid use: {why}", st.kind.name()), false) {
                return true;
            }
        }
        Err(msg) => {
            if report_panic(ctx, &st.kind.name(), "encode", "fresh-object encode", false, &msg) {
                return true;
            }
        }
    }

    // twin: the dedicated codec R4 names (C09) ; another engine (C03)
    if st.kind.layer.family() == Family::Default {
        let twin = Kind { layer: Layer::dedicated(high), engine: if st.kind.engine == EngineKind::Lockstep { EngineKind::NoSimd } else { st.kind.engine } };
        if let Ok(Ok(t)) = ctx.shadow(|| fresh_encode(twin, k, r, b, &st.shards)) {
            ctx.count("c09.twin_rounds");
            if envelope::np2(k) != envelope::np2(r) {
                ctx.count("c09.twin_rounds_rates_distinguishable");
            }
            if t != recovery {
                if ctx.viol(&["C09"], "twin-dedicated", "twin/encode".into(), format!("{}{:?}: bytes differ from {} which the selection rule names", st.kind.name(), st.cfg, twin.name()), false) {
                    return true;
                }
            }
        }
    }
    if ch.chance("c03.cross", 1, 2) {
        let other = other_engine(st.kind, ch);
        if let Ok(Ok(t)) = ctx.shadow(|| fresh_encode(other, k, r, b, &st.shards)) {
            ctx.count("c03.cross_engine_rounds");
            if t != recovery {
                if ctx.viol(&["C03"], "cross-engine", format!("cross/encode/{}-{}", st.kind.engine.name(), other.engine.name()), format!("{}{:?}: bytes differ from {}", st.kind.name(), st.cfg, other.name()), false) {
                    return true;
                }
            }
        }
    }

    // slot independence, literally (C04)
    if b > 2 && ch.chance("c04.slot", 1, 2) {
        match ctx.shadow(|| slot_check_encode(st.kind, k, r, &st.shards, &recovery, probe_seed)) {
            Ok(Ok(None)) => ctx.count("c04.slot_checks"),
            Ok(Ok(Some(why))) => {
                if ctx.viol(&["C04"], "slot-independence", "slot/encode".into(), format!("{}{:?}: {why}", st.kind.name(), st.cfg), false) {
                    return true;
                }
            }
            _ => {}
        }
    }

    // one-shot encode equals the streaming ReedSolomonEncoder (C10), any layer agrees with it (C09)
    if st.kind.layer.family() == Family::Default && ch.chance("c10.oneshot", 1, 2) {
        let res = ctx.shadow(|| reed_solomon_simd::encode(k, r, &st.shards));
        match res {
            Ok(Ok(v)) => {
                ctx.count("c10.oneshot_encode_compared");
                if v != recovery {
                    if ctx.viol(&["C10", "C09"], "oneshot-equals-streaming", "oneshot/encode/bytes".into(), format!("encode({k}, {r}, ..) differs from streaming {}{:?}", st.kind.name(), st.cfg), false) {
                        return true;
                    }
                }
            }
            Ok(Err(e)) => {
                if ctx.viol(&["C10", "C06"], "oneshot-equals-streaming", format!("oneshot/encode/{}", err_name(&e)), format!("encode({k}, {r}, {k} valid shards of {b} bytes) returned Err({e:?}) where the streaming encoder succeeds"), false) {
                    return true;
                }
            }
            Err(msg) => {
                if report_panic(ctx, "encode()", "oneshot", "one-shot encode", false, &msg) {
                    return true;
                }
            }
        }
    }

    st.shards.clear();
    st.rounds += 1;
    st.since_reset += 1;
    st.failed_round = false;
    st.data_seed = ch.seed64("data.seed");
    false
}

// ======================================================================
// DECODER HISTORIES

pub struct Stripe {
    pub high: bool,
    pub k: usize,
    pub r: usize,
    pub b: usize,
    pub originals: Vec<Vec<u8>>,
    pub recovery: Vec<Vec<u8>>,
}

/// Builds a stripe by the trusted path (R1, or a fresh dedicated NoSimd encoder checked against R1).
pub fn make_stripe(ctx: &mut Ctx, fam: Family, cfg: (usize, usize, usize), data_seed: u64, data_mode: u8) -> Option<Stripe> {
    let (k, r, b) = cfg;
    let high = envelope::effective_high(fam, k, r);
    let originals: Vec<Vec<u8>> = (0..k).map(|i| gen_shard(data_seed, data_mode, i, b)).collect();
    let res = ctx.shadow(|| reference_recovery(high, k, r, &originals));
    let (recovery, from_r1) = match res {
        Ok(Ok(v)) => v,
        Ok(Err(why)) => {
            ctx.viol(&["C06", "C02"], "shadow-failed", "shadow/stripe".into(), format!("trusted encoder failed: {why}"), true);
            return None;
        }
        Err(msg) => {
            report_panic(ctx, "trusted encoder", "encode", "stripe encode", false, &msg);
            return None;
        }
    };
    if !from_r1 {
        let (mism, compared) = check_r1(high, k, r, &originals, &recovery, data_seed);
        ctx.count_n("r1.symbols_compared", compared as u64);
        if let Some(why) = mism {
            ctx.viol(&["C02"], "r1-code", "r1/stripe".into(), format!("trusted NoSimd encoder ({k},{r},{b}): {why}"), true);
            return None;
        }
    }
    Some(Stripe { high, k, r, b, originals, recovery })
}

struct DecState {
    kind: Kind,
    cfg: (usize, usize, usize),
    stripe: Stripe,
    given_o: Vec<bool>,
    given_r: Vec<bool>,
    n_o: usize,
    n_r: usize,
    adds: Vec<Add>,
    has_history: bool,
    failed_round: bool,
    failed_ever: bool,
    held: Need,
    rounds: u32,
    since_reset: u32,
    /// positions (recovery?, index) delivered in the last decoded round of this object
    last_round: Vec<(bool, usize)>,
    /// positions the next valid delivery repeats (set by a reset to a sibling configuration)
    script: Vec<(bool, usize)>,
    /// a result of this object was leaked: the next operation is an explicit reset
    must_reset: bool,
}

fn dec_need(kind: Kind, cfg: (usize, usize, usize)) -> Need {
    envelope::decoder_need(envelope::effective_high(kind.layer.family(), cfg.0, cfg.1), cfg.0, cfg.1, cfg.2)
}

impl DecState {
    fn fresh(ch: &mut Chooser, ctx: &mut Ctx, kind: Kind, cfg: (usize, usize, usize), held: Need, has_history: bool) -> Option<Self> {
        let stripe = make_stripe(ctx, kind.layer.family(), cfg, ch.seed64("data.seed"), ch.weighted("data.mode", &[8, 1, 1, 3, 3]) as u8)?;
        Some(Self {
            kind,
            cfg,
            given_o: vec![false; cfg.0],
            given_r: vec![false; cfg.1],
            n_o: 0,
            n_r: 0,
            adds: Vec::new(),
            stripe,
            has_history,
            failed_round: false,
            failed_ever: false,
            held,
            rounds: 0,
            since_reset: 0,
            last_round: Vec::new(),
            script: Vec::new(),
            must_reset: false,
        })
    }
    fn clear_round(&mut self) {
        self.given_o.fill(false);
        self.given_r.fill(false);
        self.n_o = 0;
        self.n_r = 0;
        self.adds.clear();
        self.failed_round = false;
    }
}

pub fn weird_index(ch: &mut Chooser, count: usize) -> usize {
    match ch.pick("idx.weird", 9) {
        0 => count,
        1 => count + 1,
        2 => 65535.max(count),
        3 => 65536,
        4 => 1 << 32,
        5 => usize::MAX,
        6 => usize::MAX - 1,
        7 => usize::MAX - count,
        _ => usize::MAX - 65535,
    }
}

pub fn run_decoder(ch: &mut Chooser, ctx: &mut Ctx) {
    let _ = take_layer_divergence();
    let mut pool = Pool::default();
    let kind = gen_kind(ch);
    let marathon = gen_marathon(ch, kind);
    let cfg = marathon.map_or_else(|| gen_config_for(ch, kind), |m| m.0);
    ctx.arm_poison(ch.seed64("poison.seed"), ch.weighted("poison.mode", &[1, 6, 2]) as u8);
    // F22: one history in six migrates (about every other guarded call runs on the companion OS thread); not the marathons (cost)
    ctx.migrant = marathon.is_none() && ch.chance("migrant", 1, 6);
    if ctx.migrant {
        ctx.count("fault.F22_history_migrates_between_threads");
    }
    ev!(ctx, "decoder history: {} cfg={cfg:?} poison_mode={} migrant={}", kind.name(), ctx.poison_mode, ctx.migrant);
    ctx.hash.feed_u64(0xD000 + kind.layer as u64 * 16 + kind.engine as u64);

    let made = ctx.guarded(true, || dec_new(kind, cfg.0, cfg.1, cfg.2, None));
    let mut obj: Box<dyn DynDecoder> = match made {
        Ok(Ok(o)) => o,
        Ok(Err(e)) => {
            ctx.viol(&["C06", "C08"], "verdict", format!("verdict/new/{}", err_name(&e)), format!("{}::new{cfg:?} returned Err({e:?}) for a supported configuration", kind.name()), true);
            return;
        }
        Err(msg) => {
            report_panic(ctx, &kind.name(), "new", &format!("new{cfg:?}"), false, &msg);
            return;
        }
    };
    let Some(mut st) = DecState::fresh(ch, ctx, kind, cfg, dec_need(kind, cfg), false) else { return };

    // mostly short histories; one in twenty is long (many consecutive rounds and resets on one object)
    let n_ops = if marathon.is_some() { 280 } else if cfg.0 + cfg.1 <= 64 && cfg.2 <= 2048 && ch.chance("ops.long", 1, 20) { 60 + ch.pick_usize("ops.many", 240) } else { 4 + ch.pick_usize("ops", 40) };
    for op_no in 0..n_ops {
        if ctx.stop {
            return;
        }
        if st.cfg.2 > 100_000 && op_no >= 14 {
            break; // histories on shards of 128 KiB and more stay short (cost)
        }
        if let (Some((_, idle)), 30, true) = (marathon, op_no, st.cfg.0 + st.cfg.1 <= 64 && st.cfg.2 <= 128) {
            // the idle stretch: resets to the configuration the object has, now and then with a shard added before
            let (k, r, b) = st.cfg;
            ctx.count("probe.marathon_histories");
            let marks = marathon_marks(ch, idle, k + r);
            for i in 0..idle {
                // every position is marked in exactly one idle round (see `marathon_marks`); all other idle rounds
                // are nothing but a reset
                let res = ctx.guarded(true, || {
                    for (pos, m) in marks.iter().enumerate() {
                        if *m == i {
                            if pos < k {
                                let _ = obj.add_original(pos, &st.stripe.originals[pos]);
                            } else {
                                let _ = obj.add_recovery(pos - k, &st.stripe.recovery[pos - k]);
                            }
                        }
                    }
                    obj.reset(k, r, b)
                });
                if !matches!(res, Ok(Ok(()))) {
                    ctx.viol(&verdict_props("reset", st.failed_ever), "verdict", "verdict/reset/marathon".into(), format!("{}{:?}.reset{:?} (idle reset number {i} of a marathon history) -> {res:?}", st.kind.name(), st.cfg, st.cfg), true);
                    return;
                }
            }
            ev!(ctx, "#{op_no} {idle} idle resets to {:?}", st.cfg);
            ctx.hash.feed_u64(idle as u64);
            ctx.count_n("probe.marathon_idle_rounds", idle as u64);
            st.clear_round();
            st.since_reset = 0;
            st.has_history = true;
        }
        let (k, r, b) = st.cfg;
        let have = st.n_o + st.n_r;
        let fill_class = if have == 0 { 0 } else if have >= k { 3 } else if have + 1 == k { 2 } else { 1 };
        let op = if st.must_reset { 5 } else { ch.weighted("dec.op", &[30, 5, 5, 5, 22, 7, 5, 5, 4, 1]) };
        ctx.hash.feed_u64(op as u64);
        ctx.distinct(&[0xD0, st.kind.layer as u64, st.kind.engine as u64, fill_class, op as u64, u64::from(st.failed_round), u64::from(st.has_history), u64::from(st.n_o == k)]);
        match op {
            // ---------------------------------------------------- add valid shards (batch)
            0 => {
                let mut script: Vec<(bool, usize)> = std::mem::take(&mut st.script).into_iter().filter(|&(is_rec, i)| !(if is_rec { st.given_r[i] } else { st.given_o[i] })).collect();
                script.reverse();
                let scripted = !script.is_empty();
                // how many: one / up to exactly k / surplus / everything of one sort
                let add_mode = if scripted { 3 } else { ch.weighted("dec.add.n", &[3, 3, 1, 1, 2]) };
                // mode 4: a whole aligned block of one kind arrives (what a node or a rack holds): blocks of
                // 8..64 consecutive indexes, so that received sets are unions of aligned runs
                let mut block: Option<(bool, usize, usize)> = None;
                if add_mode == 4 {
                    let is_rec = ch.chance("dec.block.isrec", 1, 2);
                    let count = if is_rec { r } else { k };
                    let w = 8usize << ch.pick("dec.block.w", 4);
                    let nblocks = count.div_ceil(w);
                    let bidx = ch.pick_usize("dec.block.idx", nblocks);
                    block = Some((is_rec, bidx * w, ((bidx + 1) * w).min(count)));
                }
                let target = match add_mode {
                    0 => 1,
                    1 => k.saturating_sub(have).max(1),
                    2 => k.saturating_sub(have) + 1 + ch.pick_usize("dec.add.surplus", r),
                    4 => block.map_or(1, |b| b.2 - b.1),
                    _ if scripted => script.len(),
                    _ => 1 + ch.pick_usize("dec.add.cnt", k + r),
                };
                let mut block_next = block.map_or(0, |b| b.1);
                let rec_bias = ch.pick("dec.add.recbias", 5); // 0: originals first .. 4: recovery first
                for _ in 0..target {
                    let missing_o = k - st.n_o;
                    let missing_r = r - st.n_r;
                    if missing_o + missing_r == 0 {
                        break;
                    }
                    let (is_rec, index) = if scripted {
                        let Some(p) = script.pop() else { break };
                        ctx.count("probe.same_positions_after_sibling_reset");
                        p
                    } else if let Some((brec, _, bend)) = block {
                        // next not-yet-given index of the block
                        let given = if brec { &st.given_r } else { &st.given_o };
                        while block_next < bend && given[block_next] {
                            block_next += 1;
                        }
                        if block_next >= bend {
                            break;
                        }
                        block_next += 1;
                        (brec, block_next - 1)
                    } else {
                        let is_rec = if missing_o == 0 {
                            true
                        } else if missing_r == 0 {
                            false
                        } else {
                            ch.pick("dec.add.isrec", 4) < rec_bias
                        };
                        let (given, count) = if is_rec { (&st.given_r, r) } else { (&st.given_o, k) };
                        // n-th missing index
                        let nth = ch.pick_usize("dec.add.nth", if is_rec { missing_r } else { missing_o });
                        (is_rec, (0..count).filter(|i| !given[*i]).nth(nth).unwrap())
                    };
                    if block.is_some() {
                        ctx.count("probe.aligned_block_delivery");
                    }
                    let data = if is_rec { st.stripe.recovery[index].clone() } else { st.stripe.originals[index].clone() };
                    let mut acc = AllocStats::default();
                    let res = ctx.guarded(true, || meas(&mut acc, || if is_rec { obj.add_recovery(index, &data) } else { obj.add_original(index, &data) }));
                    let res = match res {
                        Ok(v) => v,
                        Err(msg) => {
                            let mut extra = dec_history_props(ctx, &st, &DecCall::Add(is_rec, index, &data), &Outcome::Panic);
                            extra.push("C01");
                            report_panic_x(ctx, &st.kind.name(), "add", &format!("add_{}_shard({index}, len {b})", if is_rec { "recovery" } else { "original" }), st.failed_ever, &msg, &extra);
                            return;
                        }
                    };
                    ev!(ctx, "#{op_no} add_{}_shard({index}) -> {res:?}", if is_rec { "recovery" } else { "original" });
                    ctx.hash.feed_u64(index as u64 * 2 + u64::from(is_rec));
                    if let Some(why) = judge(&res, &[]) {
                        let mut extra = dec_history_props(ctx, &st, &DecCall::Add(is_rec, index, &data), &res.map_or_else(Outcome::Err, |()| Outcome::Ok));
                        extra.push("C01");
                        ctx.viol(&verdict_props_x("add", st.failed_ever, &extra), "verdict", format!("verdict/dec.add/{}", res.as_ref().err().map_or("Ok", err_name)), format!("{}{:?}.add_{}_shard({index}, valid shard) {why}", st.kind.name(), st.cfg, if is_rec { "recovery" } else { "original" }), true);
                        return;
                    }
                    if alloc_check(ctx, st.kind, "add_*_shard", "round operations never allocate", &acc) {
                        return;
                    }
                    if is_rec {
                        st.given_r[index] = true;
                        st.n_r += 1;
                    } else {
                        st.given_o[index] = true;
                        st.n_o += 1;
                    }
                    st.adds.push(Add { is_rec, index, data });
                    ctx.count("dec.add_ok");
                }
                if scripted && st.n_o + st.n_r >= k && dec_decode(ch, ctx, &mut *obj, &mut st, op_no) {
                    return;
                }
            }
            // ---------------------------------------------------- duplicate / out of range / wrong length
            1..=3 => {
                let is_rec = ch.chance("dec.bad.isrec", 1, 2);
                let count = if is_rec { r } else { k };
                let given_any = if is_rec { st.n_r > 0 } else { st.n_o > 0 };
                let (index, what) = match op {
                    1 if given_any => {
                        let given = if is_rec { &st.given_r } else { &st.given_o };
                        let nth = ch.pick_usize("dec.dup.nth", if is_rec { st.n_r } else { st.n_o });
                        ((0..count).filter(|i| given[*i]).nth(nth).unwrap(), "duplicate")
                    }
                    2 | 1 => (weird_index(ch, count), "out-of-range"),
                    _ => (ch.pick_usize("dec.badlen.idx", count), "bad-length"),
                };
                let bad_len = op == 3 || ch.chance("dec.bad.alsolen", 1, 4);
                let len = if bad_len {
                    match ch.pick("dec.badlen", 5) {
                        0 => 0,
                        1 => b + 1,
                        2 => b - 1,
                        3 => b + 2,
                        _ => 64 * (1 + ch.pick_usize("dec.badlen.blocks", 4)),
                    }
                } else {
                    b
                };
                let data = vec![0x5Au8; len];
                let mut adm = Vec::new();
                if index >= count {
                    adm.push(if is_rec { Error::InvalidRecoveryShardIndex { recovery_count: r, index } } else { Error::InvalidOriginalShardIndex { original_count: k, index } });
                } else if if is_rec { st.given_r[index] } else { st.given_o[index] } {
                    adm.push(if is_rec { Error::DuplicateRecoveryShardIndex { index } } else { Error::DuplicateOriginalShardIndex { index } });
                }
                if len != b {
                    adm.push(Error::DifferentShardSize { shard_bytes: b, got: len });
                }
                if adm.is_empty() {
                    continue; // drew a valid call by accident (bad-length with len == b); nothing to inject
                }
                let res = ctx.guarded(true, || if is_rec { obj.add_recovery(index, &data) } else { obj.add_original(index, &data) });
                let res = match res {
                    Ok(v) => v,
                    Err(msg) => {
                        let extra = dec_history_props(ctx, &st, &DecCall::Add(is_rec, index, &data), &Outcome::Panic);
                        report_panic_x(ctx, &st.kind.name(), "add", &format!("add_{}_shard({index}, len {len}) [{what}]", if is_rec { "recovery" } else { "original" }), st.failed_ever, &msg, &extra);
                        return;
                    }
                };
                ev!(ctx, "#{op_no} add_{}_shard({index}, len {len}) [{what}] -> {res:?}", if is_rec { "recovery" } else { "original" });
                ctx.hash.feed_u64(res.as_ref().err().map_or(0, err_code));
                ctx.count(match what {
                    "duplicate" => "fault.F2.duplicate_add",
                    "out-of-range" => "fault.F8.index_out_of_range",
                    _ => "fault.F7.wrong_length",
                });
                if let Some(why) = judge(&res, &adm) {
                    let extra = dec_history_props(ctx, &st, &DecCall::Add(is_rec, index, &data), &res.map_or_else(Outcome::Err, |()| Outcome::Ok));
                    ctx.viol(&verdict_props_x("add", st.failed_ever, &extra), "verdict", format!("verdict/dec.add-{what}/{}", res.as_ref().err().map_or("Ok", err_name)), format!("{}{:?}.add_{}_shard({index}, shard of {len} bytes) [{what}] {why}", st.kind.name(), st.cfg, if is_rec { "recovery" } else { "original" }), true);
                    return;
                }
                st.failed_round = true;
                st.failed_ever = true;
            }
            // ---------------------------------------------------- decode
            4 => {
                if dec_decode(ch, ctx, &mut *obj, &mut st, op_no) {
                    return;
                }
            }
            // ---------------------------------------------------- reset valid
            5 => {
                // one reset in three after a decoded round goes to a sibling configuration (one count halved,
                // doubled or off by one, same shard size) and the next delivery repeats the previous round's
                // positions: whatever the object derived from "which positions arrived" must not survive
                let sibling = !st.last_round.is_empty() && ch.chance("reset.sibling", 1, 3);
                let next = if st.must_reset && ch.chance("leak.samecfg", 1, 2) {
                    st.cfg
                } else if sibling || marathon.is_some() {
                    gen_sibling_config(ch, st.kind, st.cfg)
                } else {
                    gen_next_config(ch, st.kind, st.cfg)
                };
                let need = dec_need(st.kind, next);
                let mut acc = AllocStats::default();
                let res = ctx.guarded(true, || meas(&mut acc, || obj.reset(next.0, next.1, next.2)));
                let res = match res {
                    Ok(v) => v,
                    Err(msg) => {
                        let extra = dec_history_props(ctx, &st, &DecCall::Reset(next.0, next.1, next.2), &Outcome::Panic);
                        report_panic_x(ctx, &st.kind.name(), "reset", &format!("reset{next:?}"), st.failed_ever, &msg, &extra);
                        return;
                    }
                };
                ev!(ctx, "#{op_no} reset{next:?} -> {res:?}");
                ctx.hash.feed_u64(res.as_ref().err().map_or(0, err_code));
                if let Some(why) = judge(&res, &[]) {
                    { let got = res.map_or_else(Outcome::Err, |()| Outcome::Ok); let mut extra = dec_history_props(ctx, &st, &DecCall::Reset(next.0, next.1, next.2), &got); extra.extend(twin_props(ctx, st.kind, true, next, &got)); ctx.viol(&verdict_props_x("reset", st.failed_ever, &extra), "verdict", format!("verdict/reset/{}", res.as_ref().err().map_or("Ok", err_name)), format!("{}{:?}.reset{next:?} {why}", st.kind.name(), st.cfg), true); }
                    return;
                }
                if covers(st.held, need) {
                    ctx.count("probe.reset_within_held");
                    if alloc_check(ctx, st.kind, &format!("reset{next:?}"), "the working space already held covers the new configuration", &acc) {
                        return;
                    }
                } else {
                    ctx.count("probe.reset_growing");
                    if need.blocks <= st.held.blocks && alloc_check_bitmap_only(ctx, st.kind, &format!("reset{next:?}"), &acc, need) {
                        return;
                    }
                }
                if envelope::effective_high(st.kind.layer.family(), next.0, next.1) != st.stripe.high {
                    ctx.count("probe.reset_crosses_rate");
                }
                let held = grow(st.held, need);
                let failed_ever = st.failed_ever;
                let last_round = std::mem::take(&mut st.last_round);
                let Some(s) = DecState::fresh(ch, ctx, st.kind, next, held, true) else { return };
                st = s;
                st.failed_ever = failed_ever;
                if sibling {
                    st.script = last_round.iter().copied().filter(|&(is_rec, i)| i < if is_rec { next.1 } else { next.0 }).collect();
                    ctx.count("probe.reset_to_sibling_config");
                }
                st.last_round = last_round;
            }
            // ---------------------------------------------------- reset invalid
            6 => {
                let next = gen_bad_config(ch, st.kind, st.cfg);
                let adm = config_adm(st.kind.layer.family(), next.0, next.1, next.2);
                let res = ctx.guarded(true, || obj.reset(next.0, next.1, next.2));
                let res = match res {
                    Ok(v) => v,
                    Err(msg) => {
                        let extra = dec_history_props(ctx, &st, &DecCall::Reset(next.0, next.1, next.2), &Outcome::Panic);
                        report_panic_x(ctx, &st.kind.name(), "reset", &format!("reset{next:?}"), st.failed_ever, &msg, &extra);
                        return;
                    }
                };
                ev!(ctx, "#{op_no} reset{next:?} [invalid] -> {res:?}");
                ctx.hash.feed_u64(res.as_ref().err().map_or(0, err_code));
                ctx.count(if envelope::supported(st.kind.layer.family(), next.0, next.1) { "fault.F10.reset_bad_size" } else { "fault.F10.reset_bad_counts" });
                if let Some(why) = judge(&res, &adm) {
                    { let got = res.map_or_else(Outcome::Err, |()| Outcome::Ok); let mut extra = dec_history_props(ctx, &st, &DecCall::Reset(next.0, next.1, next.2), &got); extra.extend(twin_props(ctx, st.kind, true, next, &got)); ctx.viol(&verdict_props_x("reset", st.failed_ever, &extra), "verdict", format!("verdict/reset-invalid/{}", res.as_ref().err().map_or("Ok", err_name)), format!("{}{:?}.reset{next:?} {why}", st.kind.name(), st.cfg), true); }
                    return;
                }
                st.failed_round = true;
                st.failed_ever = true;
            }
            // ---------------------------------------------------- recycle
            7 => {
                if ch.chance("recycle.xrate", 1, 12) && cross_rate_refused(ch, ctx, true) {
                    return;
                }
                let new_kind = if st.kind.layer == Layer::Rs || ch.chance("recycle.samekind", 1, 3) { st.kind } else { gen_kind(ch) };
                let old = std::mem::replace(&mut obj, Box::new(NullDec));
                match ctx.guarded(false, || old.into_work()) {
                    Ok(Some(w)) => pool.dec.push((w, st.held)),
                    Ok(None) => {}
                    Err(msg) => {
                        report_panic(ctx, &st.kind.name(), "into_parts", "into_parts()", st.failed_ever, &msg);
                        return;
                    }
                }
                let next = if marathon.is_some() { gen_sibling_config(ch, new_kind, st.cfg) } else { gen_next_config(ch, new_kind, st.cfg) };
                let next = if envelope::supported(new_kind.layer.family(), next.0, next.1) { next } else { gen_config_for(ch, new_kind) };
                let (work, held) = if new_kind.layer != Layer::Rs && !pool.dec.is_empty() && ch.chance("recycle.usepool", 3, 4) {
                    let i = ch.pick_usize("recycle.which", pool.dec.len());
                    let (w, h) = pool.dec.swap_remove(i);
                    (Some(w), h)
                } else {
                    (None, Need::default())
                };
                let recycled = work.is_some();
                let need = dec_need(new_kind, next);
                let res = ctx.guarded(true, || dec_new(new_kind, next.0, next.1, next.2, work));
                let acc = take_ctor_stats();
                let res = match res {
                    Ok(v) => v,
                    Err(msg) => {
                        let fresh_ok = recycled && matches!(ctx.shadow(|| dec_new(new_kind, next.0, next.1, next.2, None).map(|_| ())), Ok(Ok(())));
                        report_panic_x(ctx, &new_kind.name(), "new", &format!("new{next:?} on recycled work"), false, &msg, if fresh_ok { &["C05"] } else { &[] });
                        return;
                    }
                };
                ev!(ctx, "#{op_no} into_parts -> {}::new{next:?} work={} -> {:?}", new_kind.name(), if recycled { "recycled" } else { "None" }, res.as_ref().map(|_| ()));
                match res {
                    Ok(o) => obj = o,
                    Err(e) => {
                        let fresh_ok = recycled && matches!(ctx.shadow(|| dec_new(new_kind, next.0, next.1, next.2, None).map(|_| ())), Ok(Ok(())));
                        ctx.viol(if fresh_ok { &["C06", "C08", "C05"] } else { &["C06", "C08"] }, "verdict", format!("verdict/new/{}", err_name(&e)), format!("{}::new{next:?} returned Err({e:?}) for a supported configuration", new_kind.name()), true);
                        return;
                    }
                }
                if recycled {
                    ctx.count("probe.work_changed_owner");
                    if covers(held, need) {
                        ctx.count("probe.recycle_within_held");
                        if alloc_check(ctx, new_kind, &format!("new{next:?} on recycled working space"), "the handed-over working space already covers the configuration", &acc) {
                            return;
                        }
                    } else if need.blocks <= held.blocks && alloc_check_bitmap_only(ctx, new_kind, &format!("new{next:?} on recycled working space"), &acc, need) {
                        return;
                    }
                }
                let Some(s) = DecState::fresh(ch, ctx, new_kind, next, grow(held, need), recycled) else { return };
                st = s;
            }
            // ---------------------------------------------------- a shard whose as_ref() is not pure (ends the history)
            9 => {
                let is_rec = ch.chance("dec.flaky.isrec", 1, 2);
                let count = if is_rec { r } else { k };
                let missing: Vec<usize> = (0..count).filter(|i| !(if is_rec { st.given_r[*i] } else { st.given_o[*i] })).collect();
                if missing.is_empty() {
                    continue;
                }
                let index = missing[ch.pick_usize("dec.flaky.idx", missing.len())];
                let first = if is_rec { st.stripe.recovery[index].clone() } else { st.stripe.originals[index].clone() };
                if ch.chance("dec.flaky.panics", 1, 2) {
                    // the shard's as_ref() panics and the caller catches it (fault F19): as if the call had not been made
                    let flaky = Flaky::panicking(&first);
                    let res = ctx.guarded(true, || catch_caller_crash(|| obj.add_flaky(is_rec, index, &flaky)));
                    ctx.count("fault.F19.as_ref_panics");
                    match res {
                        Ok(None) => {
                            ev!(ctx, "#{op_no} add_{}_shard({index}, shard whose as_ref() panics) -> unwound", if is_rec { "recovery" } else { "original" });
                            continue;
                        }
                        Ok(Some(r)) => {
                            ev!(ctx, "#{op_no} add_{}_shard({index}, shard whose as_ref() panics) -> {r:?} without looking at the shard", if is_rec { "recovery" } else { "original" });
                            return;
                        }
                        Err(msg) => {
                            report_panic(ctx, &st.kind.name(), "add", &format!("add_{}_shard({index}, shard whose as_ref() panics)", if is_rec { "recovery" } else { "original" }), st.failed_ever, &msg);
                            return;
                        }
                    }
                }
                let later_len = [b + 2, b.saturating_sub(2), 0, b, 1][ch.pick_usize("dec.flaky.len", 5)];
                let later = vec![0x3Cu8; later_len];
                let flaky = Flaky::new(&first, &later);
                let res = ctx.guarded(true, || obj.add_flaky(is_rec, index, &flaky));
                ctx.count("fault.F10.impure_as_ref");
                let res = match res {
                    Ok(v) => v,
                    Err(msg) => {
                        report_panic(ctx, &st.kind.name(), "add", &format!("add_{}_shard({index}, shard whose as_ref() returns {b} bytes first and {later_len} bytes later)", if is_rec { "recovery" } else { "original" }), st.failed_ever, &msg);
                        return;
                    }
                };
                ev!(ctx, "#{op_no} add_{}_shard({index}, impure as_ref: {b} then {later_len} bytes) -> {res:?}", if is_rec { "recovery" } else { "original" });
                if let Err(e) = &res {
                    let adm = if later_len != b { vec![Error::DifferentShardSize { shard_bytes: b, got: later_len }] } else { vec![] };
                    if !adm.contains(e) {
                        ctx.viol(&verdict_props("add", st.failed_ever), "verdict", format!("verdict/dec.add-impure/{}", err_name(e)), format!("{}{:?}.add_{}_shard({index}, shard whose as_ref() returns {b} bytes first and {later_len} bytes later) returned Err({e:?}), which describes neither slice; truthful errors: {adm:?}", st.kind.name(), st.cfg, if is_rec { "recovery" } else { "original" }), true);
                    }
                }
                return;
            }
            _ => {
                if static_probe(ch, ctx, st.kind, true) {
                    return;
                }
            }
        }
        if let Some(d) = take_layer_divergence() {
            if ctx.viol(&["C09"], "api-layers-agree", format!("layers/{}", d.split(':').next().unwrap_or("")), format!("{:?}: {d}", st.cfg), true) {
                return;
            }
        }
        if lockstep_check(ctx, st.kind, "decoder history") {
            return;
        }
    }
}

struct NullDec;
impl DynDecoder for NullDec {
    fn add_flaky(&mut self, _: bool, _: usize, _: &Flaky) -> Result<(), Error> {
        unreachable!()
    }
    fn add_original(&mut self, _: usize, _: &[u8]) -> Result<(), Error> {
        unreachable!()
    }
    fn add_recovery(&mut self, _: usize, _: &[u8]) -> Result<(), Error> {
        unreachable!()
    }
    fn decode(&mut self) -> Result<reed_solomon_simd::DecoderResult<'_>, Error> {
        unreachable!()
    }
    fn reset(&mut self, _: usize, _: usize, _: usize) -> Result<(), Error> {
        unreachable!()
    }
    fn into_work(self: Box<Self>) -> Option<DecoderWork> {
        None
    }
}

fn dec_decode(ch: &mut Chooser, ctx: &mut Ctx, obj: &mut dyn DynDecoder, st: &mut DecState, op_no: usize) -> bool {
    let (k, r, b) = st.cfg;
    let adm = if st.n_o + st.n_r < k {
        vec![Error::NotEnoughShards { original_count: k, original_received_count: st.n_o, recovery_received_count: st.n_r }]
    } else {
        vec![]
    };
    let probe_seed = ch.seed64("probe.seed");
    let crash_drop = ch.chance("dec.crashdrop", 1, 8);
    if crash_drop {
        ctx.count("fault.F14.caller_unwinds_through_result");
    }
    let leak = ch.chance("dec.leak", 1, 16);
    let mut acc = AllocStats::default();
    let mut stage = "decode";
    let given_o = st.given_o.clone();
    let out = ctx.guarded(true, || {
        let res = meas(&mut acc, || obj.decode());
        match res {
            Err(e) => Err(e),
            Ok(result) => {
                stage = "result";
                let probed = probe_decoder_result(&result, k, b, &given_o, probe_seed);
                meas(&mut acc, || {
                    let mut n = 0usize;
                    for (i, s) in result.restored_original_iter() {
                        n += i + s.len();
                    }
                    n += result.restored_original(0).map_or(0, <[u8]>::len);
                    std::hint::black_box(n);
                });
                stage = "drop";
                if leak {
                    // the result is leaked (its destructor never runs); the only thing the caller may do with the
                    // object afterwards is an explicit reset, which must start from scratch like any reset
                    std::mem::forget(result);
                } else if crash_drop {
                    // the caller panics while the result is alive and catches the panic further up: the result is
                    // dropped by unwinding, which must start a new round like any other drop
                    unwind_through(result);
                } else {
                    meas(&mut acc, || drop(result));
                }
                Ok(probed)
            }
        }
    });
    let out = match out {
        Ok(v) => v,
        Err(msg) => {
            let op = match stage {
                "decode" => "decode",
                "result" => "result",
                _ => "drop",
            };
            let mut extra = if stage == "decode" { dec_history_props(ctx, st, &DecCall::Decode, &Outcome::Panic) } else { Vec::new() };
            if stage == "decode" {
                extra.extend(dec_engine_props(ctx, st, &DecCall::Decode, &Outcome::Panic));
                if st.n_o + st.n_r >= k {
                    extra.push("C01"); // enough valid shards were given, decode must succeed
                }
            }
            return report_panic_x(ctx, &st.kind.name(), op, &format!("decode() [{stage}] with {}+{} of {k} shards", st.n_o, st.n_r), st.failed_ever, &msg, &extra);
        }
    };
    ev!(ctx, "#{op_no} decode() with {} original + {} recovery of k={k} -> {:?}", st.n_o, st.n_r, out.as_ref().map(|p| p.as_ref().map(|m| m.len())));
    ctx.hash.feed_u64(out.as_ref().err().map_or(0, err_code));
    if let Some(why) = judge(&out, &adm) {
        let got = out.as_ref().map_or_else(|e| Outcome::Err(*e), |_| Outcome::Ok);
        let mut extra = dec_history_props(ctx, st, &DecCall::Decode, &got);
        extra.extend(dec_engine_props(ctx, st, &DecCall::Decode, &got));
        let mut props = verdict_props_x("decode", st.failed_ever, &extra);
        if adm.is_empty() {
            props.push("C01"); // enough valid shards but decode failed
            props.push("C08");
        }
        return ctx.viol(&props, "verdict", format!("verdict/decode/{}", out.as_ref().err().map_or("Ok", err_name)), format!("{}{:?}.decode() with {} original + {} recovery shards {why}", st.kind.name(), st.cfg, st.n_o, st.n_r), true);
    }
    let probed = match out {
        Err(_) => {
            st.failed_round = true;
            st.failed_ever = true;
            ctx.count("fault.F10.early_decode");
            return false;
        }
        Ok(p) => p,
    };
    ctx.count("dec.rounds");
    if st.n_o + st.n_r == k {
        ctx.count("probe.decode_with_exactly_k");
    } else {
        ctx.count("probe.decode_with_surplus");
    }
    if st.n_o == 0 {
        ctx.count("probe.all_originals_lost");
    }
    if st.n_o == k {
        ctx.count("probe.no_original_lost");
    }
    if b % 64 != 0 {
        ctx.count("probe.partial_last_block");
    }
    if st.has_history || st.rounds > 0 {
        ctx.count("probe.round_on_reused_object");
    }
    if st.failed_round {
        ctx.count("probe.round_after_failed_call");
    }
    if alloc_check(ctx, st.kind, "decode() / result access / result drop", "round operations never allocate", &acc) {
        return true;
    }
    let restored = match probed {
        Ok(m) => m,
        Err(why) => {
            let props: &[&'static str] = if why.contains(" bytes, expected") { &["C12", "C04"] } else { &["C12", "C11", "C01"] };
            let mut props = props.to_vec();
            // history dependence: a freshly built object given the same round passes the same probe
            let (kk, rr, bb) = st.cfg;
            if (st.has_history || st.rounds > 0) && matches!(ctx.shadow(|| fresh_decoder_probe_ok(st.kind, kk, rr, bb, &st.adds, probe_seed)), Ok(true)) {
                props.push("C05");
            }
            let props = &props[..];
            return ctx.viol(props, "result-contract", format!("dec-result/{}", why.split_whitespace().next().unwrap_or("")), format!("{}{:?} DecoderResult: {why}", st.kind.name(), st.cfg), true);
        }
    };
    let reused = st.has_history || st.rounds > 0 || st.failed_round;

    // original bytes (C01)
    for (i, s) in &restored {
        if s != &st.stripe.originals[*i] {
            let at = s.iter().zip(st.stripe.originals[*i].iter()).position(|(a, c)| a != c).unwrap_or(0);
            // a supported configuration that does not really decode also breaks the last clause of C08
            let mut props = vec!["C01", "C08"];
            if reused {
                props.push("C05");
            }
            if st.failed_round {
                props.push("C07");
            }
            if st.since_reset > 0 {
                props.push("C12");
            }
            if ctx.viol(&props, "restores-original-bytes", format!("restore/{}", if reused { "reused" } else { "first-use" }), format!("{}{:?}: restored original {i} differs from the encoded original at byte {at} ({} originals + {} recovery given)", st.kind.name(), st.cfg, st.n_o, st.n_r), false) {
                return true;
            }
            break;
        }
    }
    if ctx.stats.samples.len() < 2 {
        ctx.stats.samples.push(format!("{}{:?} round {} decode of {} original + {} recovery shards (adds in order: {:?}..) -> {} restored", st.kind.name(), st.cfg, st.rounds, st.n_o, st.n_r, st.adds.iter().take(8).map(|a| format!("{}{}", if a.is_rec { 'R' } else { 'O' }, a.index)).collect::<Vec<_>>(), restored.len()));
    }

    // R3 fresh object, same order (C05, C07)
    match ctx.shadow(|| fresh_decode(st.kind, k, r, b, &st.adds)) {
        Ok(Ok(Ok(f))) => {
            ctx.count("r3.shadow_rounds");
            if f != restored {
                let mut props = vec!["C05"];
                if st.failed_round {
                    props.push("C07");
                }
                if st.since_reset > 0 {
                    props.push("C12");
                }
                if ctx.viol(&props, "r3-fresh-object", format!("r3/decode/{}", if reused { "reused" } else { "first-use" }), format!("{}{:?}: restored shards differ from a freshly constructed decoder given the same adds (rounds={}, reused={}, failed call this round={})", st.kind.name(), st.cfg, st.rounds, st.has_history, st.failed_round), false) {
                    return true;
                }
            }
        }
        Ok(Ok(Err(e))) => {
            if ctx.viol(&["C06", "C01"], "shadow-failed", "shadow/dec".into(), format!("fresh {} decode failed on valid use: {e:?}", st.kind.name()), false) {
                return true;
            }
        }
        Ok(Err(why)) => {
            if ctx.viol(&["C06"], "shadow-failed", "shadow/dec".into(), format!("fresh {} failed on valid use: {why}", st.kind.name()), false) {
                return true;
            }
        }
        Err(msg) => {
            if report_panic(ctx, &st.kind.name(), "decode", "fresh-object decode", false, &msg) {
                return true;
            }
        }
    }

    // canonical ascending order on a fresh decoder (C11)
    if ch.chance("c11.canon", 1, 2) {
        let mut canon = st.adds.clone();
        canon.sort_by_key(|a| (a.is_rec, a.index));
        if let Ok(Ok(Ok(f))) = ctx.shadow(|| fresh_decode(st.kind, k, r, b, &canon)) {
            ctx.count("c11.order_variants");
            if f != restored {
                if ctx.viol(&["C11"], "order-independence", "order/canonical".into(), format!("{}{:?}: result differs when the same {} shards are added in ascending order", st.kind.name(), st.cfg, canon.len()), false) {
                    return true;
                }
            }
        }
    }

    // twin / other engine
    if st.kind.layer.family() == Family::Default {
        let twin = Kind { layer: Layer::dedicated(st.stripe.high), engine: if st.kind.engine == EngineKind::Lockstep { EngineKind::NoSimd } else { st.kind.engine } };
        match ctx.shadow(|| fresh_decode(twin, k, r, b, &st.adds)) {
            Ok(Ok(Ok(f))) => {
                ctx.count("c09.twin_rounds");
                if f != restored {
                    if ctx.viol(&["C09"], "twin-dedicated", "twin/decode".into(), format!("{}{:?}: restored shards differ from {}", st.kind.name(), st.cfg, twin.name()), false) {
                        return true;
                    }
                }
            }
            _ => {}
        }
    }
    if ch.chance("c03.cross", 1, 2) {
        let other = other_engine(st.kind, ch);
        if let Ok(Ok(Ok(f))) = ctx.shadow(|| fresh_decode(other, k, r, b, &st.adds)) {
            ctx.count("c03.cross_engine_rounds");
            if f != restored {
                if ctx.viol(&["C03"], "cross-engine", format!("cross/decode/{}-{}", st.kind.engine.name(), other.engine.name()), format!("{}{:?}: restored shards differ from {}", st.kind.name(), st.cfg, other.name()), false) {
                    return true;
                }
            }
        }
    }

    // slot independence (C04)
    if b > 2 && !restored.is_empty() && ch.chance("c04.slot", 1, 3) {
        match ctx.shadow(|| slot_check_decode(st.kind, k, r, b, &st.adds, &restored, probe_seed)) {
            Ok(Ok(None)) => ctx.count("c04.slot_checks"),
            Ok(Ok(Some(why))) => {
                if ctx.viol(&["C04"], "slot-independence", "slot/decode".into(), format!("{}{:?}: {why}", st.kind.name(), st.cfg), false) {
                    return true;
                }
            }
            _ => {}
        }
    }

    // one-shot decode on the same delivery (C10)
    if st.kind.layer.family() == Family::Default && ch.chance("c10.oneshot", 1, 2) {
        let orig: Vec<(usize, &[u8])> = st.adds.iter().filter(|a| !a.is_rec).map(|a| (a.index, &a.data[..])).collect();
        let rec: Vec<(usize, &[u8])> = st.adds.iter().filter(|a| a.is_rec).map(|a| (a.index, &a.data[..])).collect();
        match ctx.shadow(|| reed_solomon_simd::decode(k, r, orig, rec)) {
            Ok(Ok(m)) => {
                ctx.count("c10.oneshot_decode_compared");
                let m: BTreeMap<usize, Vec<u8>> = m.into_iter().collect();
                if m != restored {
                    if ctx.viol(&["C10", "C09"], "oneshot-equals-streaming", "oneshot/decode/bytes".into(), format!("decode({k}, {r}, ..) differs from streaming {}{:?}", st.kind.name(), st.cfg), false) {
                        return true;
                    }
                }
            }
            Ok(Err(e)) => {
                if ctx.viol(&["C10", "C06"], "oneshot-equals-streaming", format!("oneshot/decode/{}", err_name(&e)), format!("decode({k}, {r}, valid delivery) returned Err({e:?}) where the streaming decoder succeeds"), false) {
                    return true;
                }
            }
            Err(msg) => {
                if report_panic(ctx, "decode()", "oneshot", "one-shot decode", false, &msg) {
                    return true;
                }
            }
        }
    }

    if leak {
        st.must_reset = true;
        ctx.count("fault.F18.result_leaked_then_reset");
        // Half of the leaks are followed by two more calls before the reset. What a decoder holds after a leaked
        // result is not specified, but it must be one consistent state: either the round is still there (the shards
        // are still registered: a repeated add is a duplicate, a repeated decode has enough shards) or it is
        // gone (the add is accepted and decode sees exactly that one shard) - not a mixture of the two.
        if !st.adds.is_empty() && st.kind.layer != Layer::Rs && ch.chance("dec.leak.probe", 1, 2) {
            ctx.count("probe.calls_between_leak_and_reset");
            let a = st.adds[ch.pick_usize("dec.leak.which", st.adds.len())].clone();
            let first = ctx.guarded(true, || if a.is_rec { obj.add_recovery(a.index, &a.data) } else { obj.add_original(a.index, &a.data) });
            let dup = if a.is_rec { Error::DuplicateRecoveryShardIndex { index: a.index } } else { Error::DuplicateOriginalShardIndex { index: a.index } };
            let intact = match first {
                Ok(Err(e)) if e == dup => true,
                Ok(Ok(())) => false,
                other => {
                    return ctx.viol(&["C06", "C05"], "verdict", "verdict/after-leak/add".into(), format!("{}{:?}: after a leaked result, adding shard {}{} again -> {other:?}; expected the duplicate error (round still there) or Ok (round gone)", st.kind.name(), st.cfg, if a.is_rec { "R" } else { "O" }, a.index), true);
                }
            };
            let second = ctx.guarded(true, || obj.decode().map(|res| res.restored_original_iter().take(k + 1).map(|(i, s)| (i, s.to_vec())).collect::<BTreeMap<usize, Vec<u8>>>()));
            let ok = match (&second, intact) {
                // (which bytes a second decode restores is not judged: the first one transformed the working space in place)
                (Ok(Ok(_)), true) => true,
                (Ok(got), false) => {
                    // exactly one shard registered
                    let enough = k == 1;
                    match got {
                        Ok(_) => enough,
                        Err(e) => !enough && *e == Error::NotEnoughShards { original_count: k, original_received_count: usize::from(!a.is_rec), recovery_received_count: usize::from(a.is_rec) },
                    }
                }
                _ => false,
            };
            if !ok {
                return ctx.viol(&["C06", "C05"], "verdict", "verdict/after-leak/decode".into(), format!("{}{:?}: after a leaked result the decoder answered the repeated add of shard {}{} with {} and then decode() with {:?}: neither 'the round is still there' nor 'the round is gone'", st.kind.name(), st.cfg, if a.is_rec { "R" } else { "O" }, a.index, if intact { "the duplicate error" } else { "Ok" }, second.as_ref().map(|r| r.as_ref().map(|m| m.keys().copied().collect::<Vec<_>>()))), true);
            }
        }
    }
    st.last_round = st.adds.iter().map(|a| (a.is_rec, a.index)).collect();
    st.clear_round();
    st.rounds += 1;
    st.since_reset += 1;
    // the next round codes new data (a result that is really the previous round's would otherwise look right)
    if ch.chance("dec.newdata", 3, 4) {
        let fam = st.kind.layer.family();
        match make_stripe(ctx, fam, st.cfg, ch.seed64("data.seed"), ch.weighted("data.mode", &[8, 1, 1, 3, 3]) as u8) {
            Some(s) => st.stripe = s,
            None => return true,
        }
    }
    false
}
