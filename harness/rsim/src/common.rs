//! Shared run context: violations, event log, counters, guarded calls, generators.

use std::cell::RefCell;
use std::collections::{BTreeMap, BTreeSet};
use std::panic::{catch_unwind, AssertUnwindSafe};

use reed_solomon_simd::Error;
use simcore::countalloc::{self, AllocStats};
use simcore::envelope::{self, Family};
use simcore::prng::{LogHash, Prng};
use simcore::Chooser;

// ======================================================================
// Violation

#[derive(Clone, Debug)]
pub struct Violation {
    /// properties this oracle serves
    pub props: Vec<&'static str>,
    /// oracle id
    pub oracle: &'static str,
    /// stable signature (used to match known findings)
    pub sig: String,
    /// human readable
    pub detail: String,
    /// the object can no longer be driven (panic, model/object divergence)
    pub fatal: bool,
}

impl Violation {
    pub fn class(&self, prop: &str) -> String {
        format!("{prop}/{}", self.oracle)
    }
}

// ======================================================================
// Ctx

#[derive(Default)]
pub struct Stats {
    pub counters: BTreeMap<&'static str, u64>,
    pub distinct: BTreeSet<u64>,
    pub samples: Vec<String>,
    pub tuples: BTreeSet<(u8, u8, u8, u8, u8)>,
}

impl Stats {
    pub fn merge(&mut self, other: &Stats) {
        for (k, v) in &other.counters {
            *self.counters.entry(k).or_insert(0) += v;
        }
        self.distinct.extend(other.distinct.iter().copied());
        self.tuples.extend(other.tuples.iter().copied());
        for s in &other.samples {
            if self.samples.len() < 6 {
                self.samples.push(s.clone());
            }
        }
    }
}

pub struct Ctx {
    /// property under check; violations of oracles that do not serve it are muted
    pub prop: String,
    pub trace_on: bool,
    pub events: Vec<String>,
    pub hash: LogHash,
    pub stats: Stats,
    pub violation: Option<Violation>,
    pub stop: bool,
    poison_seed: u64,
    poison_n: u64,
    pub poison_mode: u8,
    /// CPU feature mask of the simulated machine the current call runs on (F11)
    pub cpu_mask: u32,
    /// F22, "the history migrates": about every other guarded call of this run executes on another OS thread, the
    /// companion of the simulator thread (the objects are `Send`; callers hand codecs to worker pools), with the per-thread state of the hooks and of the
    /// harness handed over and back, so that the run is the same function of its decisions as on one thread
    pub migrant: bool,
    migrant_n: u64,
}

#[macro_export]
macro_rules! ev {
    ($ctx:expr, $($arg:tt)*) => {
        if $ctx.trace_on {
            $ctx.events.push(format!($($arg)*));
        }
    };
}

impl Ctx {
    pub fn new(prop: &str, trace_on: bool) -> Self {
        Self {
            prop: prop.to_string(),
            trace_on,
            events: Vec::new(),
            hash: LogHash::default(),
            stats: Stats::default(),
            violation: None,
            stop: false,
            poison_seed: 0,
            poison_n: 0,
            poison_mode: 0,
            cpu_mask: u32::MAX,
            migrant: false,
            migrant_n: 0,
        }
    }

    #[inline]
    pub fn count(&mut self, key: &'static str) {
        *self.stats.counters.entry(key).or_insert(0) += 1;
    }

    #[inline]
    pub fn count_n(&mut self, key: &'static str, n: u64) {
        *self.stats.counters.entry(key).or_insert(0) += n;
    }

    pub fn distinct(&mut self, parts: &[u64]) {
        self.stats.distinct.insert(simcore::prng::mix(parts));
    }

    pub fn serves(&self, props: &[&'static str]) -> bool {
        self.prop.is_empty() || props.iter().any(|p| *p == self.prop)
    }

    /// Records a violation. Returns `true` if the run must stop.
    pub fn report(&mut self, v: Violation) -> bool {
        // A verdict that belongs to other properties only, and after which the run goes on unchanged, stays out of
        // the event-log hash: whether it is reached may legitimately depend on what the OS thread did before (a
        // per-thread cache's first-use allocation is C17's business, and no reason to refuse deciding C03).
        if self.serves(&v.props) || v.fatal {
            self.hash.feed_str(v.oracle);
        }
        ev!(self, "!! {} [{}] {}", v.oracle, v.props.join(","), v.detail);
        if self.serves(&v.props) {
            self.count("violations");
            if self.violation.is_none() {
                self.violation = Some(v);
            }
            self.stop = true;
            true
        } else {
            self.count("muted_other_property");
            if v.fatal {
                self.stop = true;
            }
            v.fatal
        }
    }

    pub fn viol(
        &mut self,
        props: &[&'static str],
        oracle: &'static str,
        sig: String,
        detail: String,
        fatal: bool,
    ) -> bool {
        self.report(Violation {
            props: props.to_vec(),
            oracle,
            sig,
            detail,
            fatal,
        })
    }

    // ---------------- poison (F9)

    /// `mode`: 0 off, 1 seeded random, 2 all ones
    pub fn arm_poison(&mut self, seed: u64, mode: u8) {
        self.poison_seed = seed;
        self.poison_mode = mode;
    }

    fn next_poison(&mut self) -> u64 {
        match self.poison_mode {
            0 => 0,
            2 => 0xFF00_0000_0000_0001,
            _ => {
                self.poison_n += 1;
                let v = simcore::prng::mix(&[self.poison_seed, self.poison_n]);
                // top byte 0xFF is reserved for the all-ones mode
                let v = if v >> 56 == 0xFF { v ^ (1 << 63) } else { v };
                v | 1
            }
        }
    }

    /// Runs calls into the crate on a long-lived object: poison armed, unwinding caught.
    /// `Err(msg)` means a call panicked. Allocation is measured inside with `meas`.
    pub fn guarded<R>(&mut self, poison: bool, f: impl FnOnce() -> R) -> Result<R, String> {
        let seed = if poison { self.next_poison() } else { 0 };
        if self.migrant {
            // about every other call of a migrant history, by a function of the run's decisions alone
            self.migrant_n += 1;
            if simcore::prng::mix(&[self.poison_seed ^ 0xF22, self.migrant_n]) & 1 == 1 {
                return self.guarded_elsewhere(seed, f);
            }
        }
        reed_solomon_simd::verif::set_poison(seed);
        reed_solomon_simd::verif::set_cpu_mask(self.cpu_mask);
        let res = catch_unwind(AssertUnwindSafe(f));
        reed_solomon_simd::verif::set_poison(0);
        reed_solomon_simd::verif::set_cpu_mask(u32::MAX);
        match res {
            Ok(v) => Ok(v),
            Err(_) => Err(harness_panic_guard(take_panic_message())),
        }
    }

    /// `guarded` on the companion OS thread of this simulator thread (F22). The caller waits for the call to end, so
    /// exactly one of the two threads runs at any time and the closure's borrows are used by one thread at a time:
    /// that is what `Handed` asserts. Everything the hooks and the harness keep per thread travels with the call and
    /// comes back with it.
    fn guarded_elsewhere<R>(&mut self, seed: u64, f: impl FnOnce() -> R) -> Result<R, String> {
        struct Handed<T>(T);
        // SAFETY: strictly sequential hand-over (send, then wait for the end before anything else happens here)
        unsafe impl<T> Send for Handed<T> {}
        impl<T> Handed<T> {
            fn open(self) -> T {
                self.0
            }
        }
        struct PerThread {
            perturb: (u64, u64),
            mk: u32,
            log: crate::lockstep::LockstepLog,
            ctor: AllocStats,
            divergence: Option<String>,
            panic: String,
        }
        let mask = self.cpu_mask;
        let state = PerThread {
            perturb: crate::lockstep::perturb_state(),
            mk: crate::codec::mk_counter(),
            log: crate::lockstep::take_log(),
            ctor: crate::codec::take_ctor_stats(),
            divergence: crate::codec::take_layer_divergence(),
            panic: take_panic_message(),
        };
        let job = Handed((f, state));
        let mut back: Option<Handed<(Result<R, ()>, PerThread)>> = None;
        {
            let back = &mut back;
            let task: Box<dyn FnOnce() + '_> = Box::new(move || {
                let (f, st) = job.open();
                crate::lockstep::set_perturb_state(st.perturb);
                crate::codec::set_mk_counter(st.mk);
                crate::lockstep::set_log(st.log);
                crate::codec::set_ctor_stats(st.ctor);
                crate::codec::set_layer_divergence(st.divergence);
                PANIC_MSG.with(|m| *m.borrow_mut() = st.panic);
                reed_solomon_simd::verif::set_poison(seed);
                reed_solomon_simd::verif::set_cpu_mask(mask);
                let res = catch_unwind(AssertUnwindSafe(f));
                reed_solomon_simd::verif::set_poison(0);
                reed_solomon_simd::verif::set_cpu_mask(u32::MAX);
                *back = Some(Handed((
                    res.map_err(|_| ()),
                    PerThread {
                        perturb: crate::lockstep::perturb_state(),
                        mk: crate::codec::mk_counter(),
                        log: crate::lockstep::take_log(),
                        ctor: crate::codec::take_ctor_stats(),
                        divergence: crate::codec::take_layer_divergence(),
                        panic: take_panic_message(),
                    },
                )));
            });
            // SAFETY: `run_on_companion` returns only after the task has run to its end (or the process exits), so
            // nothing the task borrows is used after its lifetime; the two threads never run at the same time.
            let task: Box<dyn FnOnce() + Send + 'static> = unsafe { std::mem::transmute(task) };
            run_on_companion(task);
        }
        let Some(back) = back else {
            eprintln!("harness error: the companion thread did not run the call: {}", LAST_PANIC.lock().map(|g| g.clone()).unwrap_or_default());
            std::process::exit(2);
        };
        let (res, st) = back.open();
        crate::lockstep::set_perturb_state(st.perturb);
        crate::codec::set_mk_counter(st.mk);
        crate::lockstep::set_log(st.log);
        crate::codec::set_ctor_stats(st.ctor);
        crate::codec::set_layer_divergence(st.divergence);
        PANIC_MSG.with(|m| *m.borrow_mut() = st.panic);
        self.count("migrant.calls_on_another_thread");
        match res {
            Ok(v) => Ok(v),
            Err(()) => Err(harness_panic_guard(take_panic_message())),
        }
    }

    /// Runs harness-side reference work (shadows, oracles): poison off, panics caught.
    pub fn shadow<R>(&mut self, f: impl FnOnce() -> R) -> Result<R, String> {
        reed_solomon_simd::verif::set_poison(0);
        reed_solomon_simd::verif::set_cpu_mask(u32::MAX);
        match catch_unwind(AssertUnwindSafe(f)) {
            Ok(v) => Ok(v),
            Err(_) => Err(harness_panic_guard(take_panic_message())),
        }
    }
}

// ======================================================================
// Companion thread (F22)

struct Companion {
    tx: std::sync::mpsc::Sender<Box<dyn FnOnce() + Send + 'static>>,
    done: std::sync::mpsc::Receiver<()>,
}

thread_local! {
    /// every simulator thread has one long-lived companion OS thread that executes the guarded calls of migrant
    /// histories; like the simulator threads it lives across runs (a thread with a past)
    static COMPANION: RefCell<Option<Companion>> = const { RefCell::new(None) };
}

fn run_on_companion(task: Box<dyn FnOnce() + Send + 'static>) {
    COMPANION.with(|c| {
        let mut c = c.borrow_mut();
        let comp = c.get_or_insert_with(|| {
            let (tx, rx) = std::sync::mpsc::channel::<Box<dyn FnOnce() + Send + 'static>>();
            let (done_tx, done) = std::sync::mpsc::channel::<()>();
            let spawned = std::thread::Builder::new().name("rsim-companion".into()).stack_size(64 << 20).spawn(move || {
                for task in rx {
                    task();
                    if done_tx.send(()).is_err() {
                        break;
                    }
                }
            });
            if let Err(e) = spawned {
                eprintln!("harness error: cannot start a companion thread: {e}");
                std::process::exit(2);
            }
            Companion { tx, done }
        });
        if comp.tx.send(task).is_err() || comp.done.recv().is_err() {
            // the companion is gone: a panic outside the guarded call, i.e. in harness code
            eprintln!("harness error: the companion thread died: {}", LAST_PANIC.lock().map(|g| g.clone()).unwrap_or_default());
            std::process::exit(2);
        }
    });
}

/// Measures one crate call as an allocation region and accumulates into `acc`.
pub fn meas<R>(acc: &mut AllocStats, f: impl FnOnce() -> R) -> R {
    let (r, st) = countalloc::measure(f);
    acc.calls += st.calls;
    acc.bytes += st.bytes;
    acc.big_calls += st.big_calls;
    acc.largest = acc.largest.max(st.largest);
    r
}

// ======================================================================
// Panic capture

thread_local! {
    static PANIC_MSG: RefCell<String> = const { RefCell::new(String::new()) };
}

pub static LAST_PANIC: std::sync::Mutex<String> = std::sync::Mutex::new(String::new());

pub fn install_panic_hook() {
    std::panic::set_hook(Box::new(|info| {
        let msg = if let Some(s) = info.payload().downcast_ref::<&str>() {
            (*s).to_string()
        } else if let Some(s) = info.payload().downcast_ref::<String>() {
            s.clone()
        } else {
            "panic".to_string()
        };
        let loc = info
            .location()
            .map(|l| format!("{}:{}", l.file(), l.line()))
            .unwrap_or_default();
        PANIC_MSG.with(|m| *m.borrow_mut() = format!("{msg} @ {loc}"));
        if let Ok(mut g) = LAST_PANIC.lock() {
            *g = format!("{msg} @ {loc}");
        }
    }));
}

/// A panic raised by harness code (even inside a guarded call into the crate) is a bug of the harness,
/// never a verdict about the code under test: stop with exit 2.
pub fn harness_panic_guard(msg: String) -> String {
    let loc = msg.rsplit_once(" @ ").map_or("", |x| x.1);
    if loc.starts_with("rsim/") || loc.starts_with("simcore/") || loc.contains("/verif/harness/") {
        eprintln!("harness error: panic in harness code: {msg}");
        std::process::exit(2);
    }
    msg
}

pub fn take_panic_message() -> String {
    PANIC_MSG.with(|m| std::mem::take(&mut *m.borrow_mut()))
}

/// Stable part of a panic message for signatures: file name without line, first words of message.
pub fn panic_sig(msg: &str) -> String {
    let (text, loc) = msg.rsplit_once(" @ ").unwrap_or((msg, ""));
    let file = loc.rsplit('/').next().unwrap_or("").split(':').next().unwrap_or("");
    let words: Vec<&str> = text.split_whitespace().take(5).collect();
    format!("{}@{}", words.join("_"), file)
}

// ======================================================================
// Error helpers

pub fn err_name(e: &Error) -> &'static str {
    match e {
        Error::DifferentShardSize { .. } => "DifferentShardSize",
        Error::DuplicateOriginalShardIndex { .. } => "DuplicateOriginalShardIndex",
        Error::DuplicateRecoveryShardIndex { .. } => "DuplicateRecoveryShardIndex",
        Error::InvalidOriginalShardIndex { .. } => "InvalidOriginalShardIndex",
        Error::InvalidRecoveryShardIndex { .. } => "InvalidRecoveryShardIndex",
        Error::InvalidShardSize { .. } => "InvalidShardSize",
        Error::NotEnoughShards { .. } => "NotEnoughShards",
        Error::TooFewOriginalShards { .. } => "TooFewOriginalShards",
        Error::TooManyOriginalShards { .. } => "TooManyOriginalShards",
        Error::UnsupportedShardCount { .. } => "UnsupportedShardCount",
    }
}

pub fn err_code(e: &Error) -> u64 {
    match e {
        Error::DifferentShardSize { .. } => 1,
        Error::DuplicateOriginalShardIndex { .. } => 2,
        Error::DuplicateRecoveryShardIndex { .. } => 3,
        Error::InvalidOriginalShardIndex { .. } => 4,
        Error::InvalidRecoveryShardIndex { .. } => 5,
        Error::InvalidShardSize { .. } => 6,
        Error::NotEnoughShards { .. } => 7,
        Error::TooFewOriginalShards { .. } => 8,
        Error::TooManyOriginalShards { .. } => 9,
        Error::UnsupportedShardCount { .. } => 10,
    }
}

/// R2 verdict of one call: `adm` empty means the call must return `Ok`.
/// Returns `None` if the outcome is admissible, otherwise a description.
pub fn judge<T>(res: &Result<T, Error>, adm: &[Error]) -> Option<String> {
    match res {
        Ok(_) if adm.is_empty() => None,
        Ok(_) => Some(format!("returned Ok, admissible: {adm:?}")),
        Err(e) if adm.is_empty() => Some(format!("returned Err({e:?}) but no precondition is violated")),
        Err(e) if adm.contains(e) => None,
        Err(e) => Some(format!("returned Err({e:?}), admissible: {adm:?}")),
    }
}

/// Admissible errors of validate / new / reset.
pub fn config_adm(fam: Family, k: usize, r: usize, b: usize) -> Vec<Error> {
    let mut adm = Vec::new();
    if !envelope::supported(fam, k, r) {
        adm.push(Error::UnsupportedShardCount {
            original_count: k,
            recovery_count: r,
        });
    }
    if !envelope::ok_bytes(b) {
        adm.push(Error::InvalidShardSize { shard_bytes: b });
    }
    adm
}

// ======================================================================
// Generators

pub const SIZES: [usize; 22] = [
    2, 64, 4, 30, 32, 34, 62, 66, 126, 128, 130, 190, 192, 194, 256, 258, 318, 320, 322, 6, 96, 160,
];

/// Shard sizes at which kernels may switch strategy (cache blocking, strips, tiles): 16 KiB .. 1 MiB and neighbours,
/// with and without a partial last block, block counts that are and are not multiples of small numbers.
pub const BIG_SIZES: [usize; 12] = [16384, 16450, 65574, 131_072, 131_074, 131_136, 196_610, 200_000, 262_210, 300_000, 1_000_000, 1_048_578];

pub fn gen_bytes_big(ch: &mut Chooser) -> usize {
    BIG_SIZES[ch.pick_usize("bytes.bigidx", BIG_SIZES.len())]
}

/// An even shard size; small index = simple.
pub fn gen_bytes(ch: &mut Chooser, max: usize) -> usize {
    let b = if max >= 322 && ch.chance("bytes.colossal", 1, 300) {
        // above 128 KiB (only ever combined with tiny counts, see gen_config)
        BIG_SIZES[3 + ch.pick_usize("bytes.colossalidx", BIG_SIZES.len() - 3)]
    } else if max >= 322 && ch.chance("bytes.giant", 1, 100) {
        // shards of 16 KiB and more (kernels may switch strategy by shard length)
        [16384usize, 16386, 16450, 20000, 32834, 65574][ch.pick_usize("bytes.giantidx", 6)]
    } else if max >= 322 && ch.chance("bytes.huge", 1, 40) {
        // page-sized shards: multiples of 2048 / 4096 and their neighbours
        [2048usize, 4096, 8192, 4098, 4094, 4160, 6144][ch.pick_usize("bytes.hugeidx", 7)]
    } else if max >= 322 && ch.chance("bytes.long", 1, 12) {
        // many blocks (up to 24) with or without a partial last block
        64 * (6 + ch.pick_usize("bytes.blocks", 19)) + [0usize, 2, 30, 34, 62][ch.pick_usize("bytes.tail", 5)]
    } else if ch.chance("bytes.random", 1, 4) {
        2 * (1 + ch.pick_usize("bytes.half", 161))
    } else {
        SIZES[ch.pick_usize("bytes.idx", SIZES.len())]
    };
    if b > max && !(max >= 322 && b > 322) {
        // keep parity and the partial-block class
        let b2 = b % 64;
        if b2 == 0 {
            64.min(max)
        } else {
            b2.min(max)
        }
    } else {
        b
    }
}

fn near_pow2(ch: &mut Chooser, max_log: u32) -> usize {
    let n = ch.pick("cfg.log", u64::from(max_log) + 1) as u32;
    let p = 1usize << n;
    match ch.pick("cfg.off", 3) {
        0 => p,
        1 => p + 1,
        _ => (p - 1).max(1),
    }
}

/// A supported (k, r) for the family. `scale`: 0 small, 1 medium, 2 large.
pub fn gen_counts(ch: &mut Chooser, fam: Family, scale: u8) -> (usize, usize) {
    let (max, max_log) = match scale {
        0 => (16usize, 4u32),
        1 => (96, 6),
        2 => (3000, 11),
        3 => (24000, 14),
        // tiny: counts 1..=4, where different configurations share position layouts and received sets coincide
        _ => (4, 2),
    };
    for _ in 0..8 {
        let one = |ch: &mut Chooser| {
            if ch.chance("cfg.pow2ish", 1, 3) {
                near_pow2(ch, max_log)
            } else {
                1 + ch.pick_usize("cfg.count", max)
            }
        };
        let k = one(ch);
        let r = one(ch);
        if envelope::supported(fam, k, r) {
            return (k, r);
        }
    }
    (1, 1)
}

pub fn gen_scale(ch: &mut Chooser) -> u8 {
    ch.weighted("cfg.scale", &[58, 22, 7, 1, 12]) as u8
}

/// Cost-bounded valid configuration.
pub fn gen_config(ch: &mut Chooser, fam: Family) -> (usize, usize, usize) {
    let scale = gen_scale(ch);
    let (k, r) = gen_counts(ch, fam, scale);
    let max_b = match scale {
        0 | 4 => 322,
        1 => 194,
        2 => 66,
        _ => 2,
    };
    let b = gen_bytes(ch, max_b);
    if b > 8192 && k + r > 8 {
        // shards of 16 KiB and more only with tiny counts (cost)
        let (k2, r2) = gen_counts(ch, fam, 4);
        return (k2, r2, b);
    }
    (k, r, b)
}

/// Extreme / invalid count values.
pub fn gen_weird_count(ch: &mut Chooser) -> usize {
    const W: [usize; 14] = [
        0,
        1,
        65535,
        65536,
        65537,
        32768,
        32769,
        usize::MAX,
        usize::MAX - 1,
        1 << 32,
        (1 << 63) + 1,
        61440,
        4096,
        4097,
    ];
    W[ch.pick_usize("weird.count", W.len())]
}

/// Invalid shard sizes (zero, odd, huge odd).
pub fn gen_bad_bytes(ch: &mut Chooser) -> usize {
    const W: [usize; 8] = [0, 1, 3, 63, 65, usize::MAX, usize::MAX - 2, (1 << 32) + 1];
    W[ch.pick_usize("weird.bytes", W.len())]
}

/// Deterministic payload for shard `index` of a round.
pub fn gen_shard(data_seed: u64, mode: u8, index: usize, len: usize) -> Vec<u8> {
    let mut v = vec![0u8; len];
    match mode {
        1 => {
            // sparse: a single non-zero byte
            let mut p = Prng::new(simcore::prng::mix(&[data_seed, index as u64]));
            let at = p.below(len as u64) as usize;
            v[at] = 1 + p.below(255) as u8;
        }
        2 => v.fill(0xFF),
        3 => {
            // mixed: some shards all zero, some all ones, the rest random (special symbol values 0x0000 / 0xFFFF
            // and whole-shard special cases next to ordinary data)
            let mut p = Prng::new(simcore::prng::mix(&[data_seed, index as u64, 3]));
            match p.below(6) {
                0 | 1 => {}
                2 => v.fill(0xFF),
                _ => p.fill(&mut v),
            }
        }
        4 => fill_lanes(&mut Prng::new(simcore::prng::mix(&[data_seed, index as u64, 4])), &mut v),
        _ => Prng::new(simcore::prng::mix(&[data_seed, index as u64])).fill(&mut v),
    }
    v
}

/// Record-like data: every 16-byte lane is all zero, all non-zero, or arbitrary (zeroed headers, padding, text next to
/// binary), so that whole SIMD lanes - not only single symbols or whole shards - hold the special value zero.
pub fn fill_lanes(p: &mut Prng, buf: &mut [u8]) {
    for lane in buf.chunks_mut(16) {
        match p.below(5) {
            0 | 1 => lane.fill(0),
            2 | 3 => {
                p.fill(lane);
                for b in lane.iter_mut() {
                    if *b == 0 {
                        *b = 0x80;
                    }
                }
            }
            _ => p.fill(lane),
        }
    }
}

pub fn digest(shards: &[Vec<u8>]) -> u64 {
    let mut h = LogHash::default();
    for s in shards {
        h.feed_bytes(s);
    }
    h.0 ^ h.1
}

pub fn hex_prefix(b: &[u8]) -> String {
    let mut s = String::new();
    for x in b.iter().take(8) {
        s.push_str(&format!("{x:02x}"));
    }
    if b.len() > 8 {
        s.push_str("..");
    }
    s
}
