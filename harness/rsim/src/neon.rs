//! The crate's Neon engine source, compiled against an emulation of the seven AArch64 intrinsics
//! it uses. The intrinsics are the stub (written from the Arm ARM semantics); the engine is real.

#[allow(non_camel_case_types, clippy::missing_safety_doc)]
pub mod emu {
    #[derive(Clone, Copy)]
    pub struct uint8x16_t(pub [u8; 16]);

    /// LD1 {Vt.16B}, [Xn]: lane i = byte at ptr + i.
    #[inline(always)]
    pub unsafe fn vld1q_u8(ptr: *const u8) -> uint8x16_t {
        let mut v = [0u8; 16];
        unsafe { std::ptr::copy_nonoverlapping(ptr, v.as_mut_ptr(), 16) };
        uint8x16_t(v)
    }

    /// ST1 {Vt.16B}, [Xn]
    #[inline(always)]
    pub unsafe fn vst1q_u8(ptr: *mut u8, a: uint8x16_t) {
        unsafe { std::ptr::copy_nonoverlapping(a.0.as_ptr(), ptr, 16) };
    }

    /// DUP Vd.16B, Wn
    #[inline(always)]
    pub unsafe fn vdupq_n_u8(value: u8) -> uint8x16_t {
        uint8x16_t([value; 16])
    }

    /// AND Vd.16B
    #[inline(always)]
    pub unsafe fn vandq_u8(a: uint8x16_t, b: uint8x16_t) -> uint8x16_t {
        let mut r = [0u8; 16];
        for i in 0..16 {
            r[i] = a.0[i] & b.0[i];
        }
        uint8x16_t(r)
    }

    /// EOR Vd.16B
    #[inline(always)]
    pub unsafe fn veorq_u8(a: uint8x16_t, b: uint8x16_t) -> uint8x16_t {
        let mut r = [0u8; 16];
        for i in 0..16 {
            r[i] = a.0[i] ^ b.0[i];
        }
        uint8x16_t(r)
    }

    /// USHR Vd.16B, Vn.16B, #N: logical shift right of every 8-bit lane, 1 <= N <= 8.
    #[inline(always)]
    pub unsafe fn vshrq_n_u8<const N: i32>(a: uint8x16_t) -> uint8x16_t {
        assert!((1..=8).contains(&N));
        let mut r = [0u8; 16];
        for i in 0..16 {
            r[i] = if N == 8 { 0 } else { a.0[i] >> N };
        }
        uint8x16_t(r)
    }

    /// TBL Vd.16B, {Vn.16B}, Vm.16B: out-of-range indexes (>= 16) give 0.
    #[inline(always)]
    pub unsafe fn vqtbl1q_u8(t: uint8x16_t, idx: uint8x16_t) -> uint8x16_t {
        let mut r = [0u8; 16];
        for i in 0..16 {
            let j = idx.0[i] as usize;
            r[i] = if j < 16 { t.0[j] } else { 0 };
        }
        uint8x16_t(r)
    }
}

#[allow(unused_unsafe, unused_imports, clippy::all, missing_docs, unexpected_cfgs, mismatched_lifetime_syntaxes)]
mod ported {
    include!(concat!(env!("OUT_DIR"), "/neon_ported.rs"));
}

pub use ported::Neon as NeonEmu;
