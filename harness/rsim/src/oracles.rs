//! Reference-side helpers shared by the simulators: R1 comparison, fresh-object shadows (R3),
//! slot-independence, result probing (C12).

use std::collections::BTreeMap;

use reed_solomon_simd::{DecoderResult, EncoderResult, Error};
use simcore::gf::{self, Code, Rate};
use simcore::prng::Prng;

use crate::codec::{dec_new, enc_new, EngineKind, Kind, Layer};

pub fn rate_of(high: bool) -> Rate {
    if high {
        Rate::High
    } else {
        Rate::Low
    }
}

/// Budget (symbol products) under which R1 is evaluated in full.
pub const R1_FULL_BUDGET: usize = 400_000;

/// Compares recovery shards with R1. Full comparison when cheap, otherwise a seeded subset of
/// rows (always row 0, row r-1, a row of the last chunk) and slots (first, last, block boundary, random).
/// Returns a description of the first mismatch.
pub fn check_r1(
    high: bool,
    k: usize,
    r: usize,
    originals: &[Vec<u8>],
    recovery: &[Vec<u8>],
    sample_seed: u64,
) -> (Option<String>, usize) {
    let b = originals[0].len();
    let nslots = gf::slot_count(b);
    if recovery.len() != r {
        return (Some(format!("{} recovery shards, expected {r}", recovery.len())), 0);
    }
    for (j, s) in recovery.iter().enumerate() {
        if s.len() != b {
            return (Some(format!("recovery {j} has {} bytes, expected {b}", s.len())), 0);
        }
    }
    let code = Code::new(rate_of(high), k, r);
    let full = k * r * nslots <= R1_FULL_BUDGET;
    let (rows, slots): (Vec<usize>, Vec<usize>) = if full {
        ((0..r).collect(), (0..nslots).collect())
    } else {
        let mut p = Prng::new(sample_seed);
        let mut rows = vec![0, r - 1, (r - 1) / code.m * code.m];
        let nrows = (R1_FULL_BUDGET / (k * 6)).clamp(3, 12);
        while rows.len() < nrows {
            rows.push(p.below(r as u64) as usize);
        }
        rows.sort_unstable();
        rows.dedup();
        let mut slots = vec![0, nslots - 1, (nslots - 1).min(31), (nslots - 1).min(32)];
        slots.push(p.below(nslots as u64) as usize);
        slots.push(p.below(nslots as u64) as usize);
        slots.sort_unstable();
        slots.dedup();
        (rows, slots)
    };
    let want = code.encode_subset(originals, &rows, &slots);
    let compared = rows.len() * slots.len();
    for (a, j) in rows.iter().enumerate() {
        for (c, slot) in slots.iter().enumerate() {
            let got = gf::get_symbol(&recovery[*j], *slot);
            if got != want[a][c] {
                return (
                    Some(format!(
                        "recovery {j} slot {slot}: got symbol {got:#06x}, R1 says {:#06x} ({} rate, m={})",
                        want[a][c],
                        if high { "high" } else { "low" },
                        code.m
                    )),
                    compared,
                );
            }
        }
    }
    (None, compared)
}

/// Reference recovery shards for a stripe: R1 itself when cheap, otherwise a fresh dedicated NoSimd
/// encoder (the caller cross-checks that against R1 with `check_r1`).
pub fn reference_recovery(high: bool, k: usize, r: usize, originals: &[Vec<u8>]) -> Result<(Vec<Vec<u8>>, bool), String> {
    let b = originals[0].len();
    if k * r * gf::slot_count(b) <= R1_FULL_BUDGET {
        Ok((Code::new(rate_of(high), k, r).encode(originals), true))
    } else {
        let kind = Kind {
            layer: Layer::dedicated(high),
            engine: EngineKind::NoSimd,
        };
        fresh_encode(kind, k, r, b, originals).map(|v| (v, false))
    }
}

/// R3 for encoders: brand-new object, fresh allocation, poison disarmed by the caller.
pub fn fresh_encode(kind: Kind, k: usize, r: usize, b: usize, shards: &[Vec<u8>]) -> Result<Vec<Vec<u8>>, String> {
    let mut enc = enc_new(kind, k, r, b, None).map_err(|e| format!("fresh {}::new({k},{r},{b}): {e:?}", kind.name()))?;
    for s in shards {
        enc.add(s).map_err(|e| format!("fresh add: {e:?}"))?;
    }
    let res = enc.encode().map_err(|e| format!("fresh encode: {e:?}"))?;
    Ok(res.recovery_iter().map(<[u8]>::to_vec).collect())
}

/// Does a freshly constructed encoder given the same shards pass the result probe?
pub fn fresh_encoder_probe_ok(kind: Kind, k: usize, r: usize, b: usize, shards: &[Vec<u8>], seed: u64) -> bool {
    let Ok(mut enc) = enc_new(kind, k, r, b, None) else { return false };
    for s in shards {
        if enc.add(s).is_err() {
            return false;
        }
    }
    let Ok(res) = enc.encode() else { return false };
    probe_encoder_result(&res, r, b, seed).is_ok()
}

/// Does a freshly constructed decoder given the same shards pass the result probe?
pub fn fresh_decoder_probe_ok(kind: Kind, k: usize, r: usize, b: usize, adds: &[Add], seed: u64) -> bool {
    let Ok(mut dec) = dec_new(kind, k, r, b, None) else { return false };
    let mut given = vec![false; k];
    for a in adds {
        let res = if a.is_rec { dec.add_recovery(a.index, &a.data) } else { dec.add_original(a.index, &a.data) };
        if res.is_err() {
            return false;
        }
        if !a.is_rec {
            given[a.index] = true;
        }
    }
    let Ok(res) = dec.decode() else { return false };
    probe_decoder_result(&res, k, b, &given, seed).is_ok()
}

#[derive(Clone, Debug)]
pub struct Add {
    pub is_rec: bool,
    pub index: usize,
    pub data: Vec<u8>,
}

/// R3 for decoders.
pub fn fresh_decode(kind: Kind, k: usize, r: usize, b: usize, adds: &[Add]) -> Result<Result<BTreeMap<usize, Vec<u8>>, Error>, String> {
    let mut dec = dec_new(kind, k, r, b, None).map_err(|e| format!("fresh {}::new({k},{r},{b}): {e:?}", kind.name()))?;
    for a in adds {
        let res = if a.is_rec {
            dec.add_recovery(a.index, &a.data)
        } else {
            dec.add_original(a.index, &a.data)
        };
        res.map_err(|e| format!("fresh add {}{}: {e:?}", if a.is_rec { "R" } else { "O" }, a.index))?;
    }
    let out = match dec.decode() {
        Ok(res) => Ok(res.restored_original_iter().map(|(i, s)| (i, s.to_vec())).collect()),
        Err(e) => Err(e),
    };
    Ok(out)
}

// ======================================================================
// C12 probing

pub fn probe_indexes(count: usize, seed: u64) -> Vec<usize> {
    probe_indexes_for(count, 1, seed)
}

/// `blocks` = 64-byte blocks per shard: indexes whose product with it (or with small multiples) wraps
/// around 2^64 into the valid range are probed as well.
pub fn probe_indexes_for(count: usize, blocks: usize, seed: u64) -> Vec<usize> {
    let mut wrap = Vec::new();
    for l in [blocks.max(1), 64 * blocks.max(1), 2, 64] {
        let q = (usize::MAX / l).wrapping_add(1); // smallest i with i * l >= 2^64 (0 for l = 1)
        wrap.push(q);
        wrap.push(q.wrapping_add(count.saturating_sub(1)));
        wrap.push(q.wrapping_add(1));
    }
    let mut v = wrap;
    v.extend([1usize << 63, 1 << 62, (1 << 63) + 1, 1 << 48]);
    let count = count.min(usize::MAX - 2);
    v.extend(vec![
        0,
        count.saturating_sub(1),
        count,
        count.saturating_add(1),
        1 << 16,
        1 << 32,
        usize::MAX - 1,
        usize::MAX,
        usize::MAX - count,
        (usize::MAX - count).saturating_add(1),
    ]);
    let mut p = Prng::new(seed);
    for _ in 0..4 {
        v.push(p.below((count as u64).saturating_add(2)) as usize);
    }
    v
}

/// Checks the accessor / iterator contract of an `EncoderResult` and returns the recovery bytes.
pub fn probe_encoder_result(res: &EncoderResult, r: usize, b: usize, seed: u64) -> Result<Vec<Vec<u8>>, String> {
    let mut it = res.recovery_iter();
    let mut all: Vec<Vec<u8>> = Vec::with_capacity(r);
    for s in it.by_ref() {
        all.push(s.to_vec());
        if all.len() > r {
            return Err(format!("recovery_iter yields more than recovery_count={r} items"));
        }
    }
    if all.len() != r {
        return Err(format!("recovery_iter yielded {} items, expected {r}", all.len()));
    }
    for n in 0..3 {
        if it.next().is_some() {
            return Err(format!("recovery_iter yields Some again {n} calls after None"));
        }
    }
    for (j, s) in all.iter().enumerate() {
        if s.len() != b {
            return Err(format!("recovery_iter item {j} has {} bytes, expected {b}", s.len()));
        }
    }
    // every other way of driving the iterator must agree with repeated next()
    let mut p = Prng::new(seed ^ 0x17e2);
    let n = p.below(r as u64 + 2) as usize;
    if res.recovery_iter().nth(n).map(<[u8]>::to_vec) != all.get(n).cloned() {
        return Err(format!("recovery_iter().nth({n}) disagrees with the {n}-th item of repeated next()"));
    }
    // (every adaptor-driven walk is cut off two items after the real length: an iterator that never ends must not
    // take the process down)
    if res.recovery_iter().skip(n).take(r + 2).map(<[u8]>::to_vec).collect::<Vec<_>>() != all[n.min(r)..] {
        return Err(format!("recovery_iter().skip({n}) disagrees with repeated next()"));
    }
    let step = 1 + p.below(3) as usize;
    if res.recovery_iter().step_by(step).take(r + 2).map(<[u8]>::to_vec).collect::<Vec<_>>() != all.iter().step_by(step).cloned().collect::<Vec<_>>() {
        return Err(format!("recovery_iter().step_by({step}) disagrees with repeated next()"));
    }
    {
        // the same on an iterator that has already been advanced: a items by next(), then nth(m), then next()
        let a = p.below(r as u64 + 1) as usize;
        let m = p.below(r as u64 + 1) as usize;
        let mut it = res.recovery_iter();
        for _ in 0..a {
            it.next();
        }
        let got = (it.nth(m).map(<[u8]>::to_vec), it.next().map(<[u8]>::to_vec));
        let want = (all.get(a + m).cloned(), all.get(a + m + 1).cloned());
        if got != want {
            return Err(format!("recovery_iter(): {a} x next(), then nth({m}), then next() disagrees with repeated next()"));
        }
    }
    if res.recovery_iter().count() != r || res.recovery_iter().last().map(<[u8]>::to_vec) != all.last().cloned() {
        return Err("recovery_iter().count() / last() disagree with repeated next()".to_string());
    }
    let (lo, hi) = res.recovery_iter().size_hint();
    if lo > r || hi.is_some_and(|h| h < r) {
        return Err(format!("recovery_iter().size_hint() = ({lo}, {hi:?}) excludes the real length {r}"));
    }
    for i in probe_indexes_for(r, b.div_ceil(64), seed) {
        match res.recovery(i) {
            Some(s) if i < r => {
                if s != &all[i][..] {
                    return Err(format!("recovery({i}) differs from item {i} of recovery_iter"));
                }
            }
            Some(_) => return Err(format!("recovery({i}) is Some for index >= recovery_count={r}")),
            None if i < r => return Err(format!("recovery({i}) is None for index < recovery_count={r}")),
            None => {}
        }
    }
    Ok(all)
}

/// Checks the accessor / iterator contract of a `DecoderResult`; `given[i]` tells whether original `i`
/// was added. Returns the restored map.
pub fn probe_decoder_result(res: &DecoderResult, k: usize, b: usize, given: &[bool], seed: u64) -> Result<BTreeMap<usize, Vec<u8>>, String> {
    let mut it = res.restored_original_iter();
    let mut seq: Vec<(usize, Vec<u8>)> = Vec::new();
    for (i, s) in it.by_ref() {
        seq.push((i, s.to_vec()));
        if seq.len() > k {
            return Err(format!("restored_original_iter yields more than original_count={k} items"));
        }
    }
    for n in 0..3 {
        if it.next().is_some() {
            return Err(format!("restored_original_iter yields Some again {n} calls after None"));
        }
    }
    let want: Vec<usize> = (0..k).filter(|i| !given[*i]).collect();
    let got: Vec<usize> = seq.iter().map(|(i, _)| *i).collect();
    if got != want {
        return Err(format!(
            "restored_original_iter yields indexes {:?}.., expected exactly the missing originals {:?}..",
            &got[..got.len().min(12)],
            &want[..want.len().min(12)]
        ));
    }
    for (i, s) in &seq {
        if s.len() != b {
            return Err(format!("restored original {i} has {} bytes, expected {b}", s.len()));
        }
    }
    {
        let mut p = Prng::new(seed ^ 0x17e2);
        let len = seq.len();
        let n = p.below(len as u64 + 2) as usize;
        let own = |x: (usize, &[u8])| (x.0, x.1.to_vec());
        if res.restored_original_iter().nth(n).map(own) != seq.get(n).cloned() {
            return Err(format!("restored_original_iter().nth({n}) disagrees with the {n}-th item of repeated next()"));
        }
        if res.restored_original_iter().skip(n).take(len + 2).map(own).collect::<Vec<_>>() != seq[n.min(len)..] {
            return Err(format!("restored_original_iter().skip({n}) disagrees with repeated next()"));
        }
        let step = 1 + p.below(3) as usize;
        if res.restored_original_iter().step_by(step).take(len + 2).map(own).collect::<Vec<_>>() != seq.iter().step_by(step).cloned().collect::<Vec<_>>() {
            return Err(format!("restored_original_iter().step_by({step}) disagrees with repeated next()"));
        }
        {
            let a = p.below(len as u64 + 1) as usize;
            let m = p.below(len as u64 + 1) as usize;
            let mut it = res.restored_original_iter();
            for _ in 0..a {
                it.next();
            }
            let got = (it.nth(m).map(own), it.next().map(own));
            let want = (seq.get(a + m).cloned(), seq.get(a + m + 1).cloned());
            if got != want {
                return Err(format!("restored_original_iter(): {a} x next(), then nth({m}), then next() disagrees with repeated next()"));
            }
        }
        if res.restored_original_iter().count() != len || res.restored_original_iter().last().map(own) != seq.last().cloned() {
            return Err("restored_original_iter().count() / last() disagree with repeated next()".to_string());
        }
        let (lo, hi) = res.restored_original_iter().size_hint();
        if lo > len || hi.is_some_and(|h| h < len) {
            return Err(format!("restored_original_iter().size_hint() = ({lo}, {hi:?}) excludes the real length {len}"));
        }
    }
    let map: BTreeMap<usize, Vec<u8>> = seq.into_iter().collect();
    let mut idx = probe_indexes_for(k, b.div_ceil(64), seed);
    if k <= 64 {
        idx.extend(0..k);
    }
    for i in idx {
        let expect_some = i < k && !given[i];
        match res.restored_original(i) {
            Some(s) if expect_some => {
                if s != &map[&i][..] {
                    return Err(format!("restored_original({i}) differs from the iterator's item"));
                }
            }
            Some(_) => {
                return Err(format!(
                    "restored_original({i}) is Some but that original was {} (original_count={k})",
                    if i < k { "given" } else { "never in range" }
                ))
            }
            None if expect_some => return Err(format!("restored_original({i}) is None for a missing original")),
            None => {}
        }
    }
    Ok(map)
}

// ======================================================================
// C04 slot independence, literally: code sampled slots on their own as 2-byte shards

pub fn sample_slots(b: usize, seed: u64) -> Vec<usize> {
    let n = gf::slot_count(b);
    let mut p = Prng::new(seed);
    let mut v = vec![0, n - 1, p.below(n as u64) as usize];
    if b > 64 {
        v.push(31);
        v.push(32);
    }
    v.sort_unstable();
    v.dedup();
    v
}

/// For each sampled slot: a fresh encoder of the same kind with 2-byte shards must give the same symbols.
pub fn slot_check_encode(kind: Kind, k: usize, r: usize, originals: &[Vec<u8>], recovery: &[Vec<u8>], seed: u64) -> Result<Option<String>, String> {
    let b = originals[0].len();
    for slot in sample_slots(b, seed) {
        let tiny: Vec<Vec<u8>> = originals
            .iter()
            .map(|o| gf::get_symbol(o, slot).to_le_bytes().to_vec())
            .collect();
        let rec = fresh_encode(kind, k, r, 2, &tiny)?;
        for (j, shard) in rec.iter().enumerate() {
            let want = u16::from_le_bytes([shard[0], shard[1]]);
            if recovery[j].len() != b {
                return Ok(Some(format!("recovery {j} has {} bytes, expected {b}", recovery[j].len())));
            }
            let got = gf::get_symbol(&recovery[j], slot);
            if got != want {
                return Ok(Some(format!(
                    "shard size {b}: recovery {j} slot {slot} is {got:#06x}, but coding that slot alone as 2-byte shards gives {want:#06x}"
                )));
            }
        }
    }
    Ok(None)
}

/// Same for decoding: restored symbols at sampled slots must equal a 2-byte-shard decode of that slot.
pub fn slot_check_decode(kind: Kind, k: usize, r: usize, b: usize, adds: &[Add], restored: &BTreeMap<usize, Vec<u8>>, seed: u64) -> Result<Option<String>, String> {
    for slot in sample_slots(b, seed) {
        let tiny: Vec<Add> = adds
            .iter()
            .map(|a| Add {
                is_rec: a.is_rec,
                index: a.index,
                data: gf::get_symbol(&a.data, slot).to_le_bytes().to_vec(),
            })
            .collect();
        let out = fresh_decode(kind, k, r, 2, &tiny)?.map_err(|e| format!("2-byte decode failed: {e:?}"))?;
        for (i, shard) in restored {
            let Some(t) = out.get(i) else {
                return Ok(Some(format!("2-byte decode of slot {slot} does not restore original {i}")));
            };
            let want = u16::from_le_bytes([t[0], t[1]]);
            let got = gf::get_symbol(shard, slot);
            if got != want {
                return Ok(Some(format!(
                    "shard size {b}: restored original {i} slot {slot} is {got:#06x}, but decoding that slot alone as 2-byte shards gives {want:#06x}"
                )));
            }
        }
    }
    Ok(None)
}

// ======================================================================
// The ancestor release reed-solomon-16 0.1.0 as a foreign node (C02: shards interoperate across releases;
// for shard sizes that are multiples of 64 the bytes are equal)

pub fn ancestor_encode(high: bool, k: usize, r: usize, originals: &[Vec<u8>]) -> Result<Vec<Vec<u8>>, String> {
    use reed_solomon_16::engine::NoSimd;
    use reed_solomon_16::rate::{HighRateEncoder, LowRateEncoder, RateEncoder};
    fn go<T: RateEncoder<NoSimd>>(k: usize, r: usize, originals: &[Vec<u8>]) -> Result<Vec<Vec<u8>>, String> {
        let mut enc = T::new(k, r, originals[0].len(), NoSimd::new(), None).map_err(|e| format!("ancestor new: {e:?}"))?;
        for o in originals {
            enc.add_original_shard(o).map_err(|e| format!("ancestor add: {e:?}"))?;
        }
        let res = enc.encode().map_err(|e| format!("ancestor encode: {e:?}"))?;
        Ok(res.recovery_iter().map(<[u8]>::to_vec).collect())
    }
    if high {
        go::<HighRateEncoder<NoSimd>>(k, r, originals)
    } else {
        go::<LowRateEncoder<NoSimd>>(k, r, originals)
    }
}

pub fn ancestor_decode(high: bool, k: usize, r: usize, b: usize, adds: &[Add]) -> Result<BTreeMap<usize, Vec<u8>>, String> {
    use reed_solomon_16::engine::NoSimd;
    use reed_solomon_16::rate::{HighRateDecoder, LowRateDecoder, RateDecoder};
    fn go<T: RateDecoder<NoSimd>>(k: usize, r: usize, b: usize, adds: &[Add]) -> Result<BTreeMap<usize, Vec<u8>>, String> {
        let mut dec = T::new(k, r, b, NoSimd::new(), None).map_err(|e| format!("ancestor new: {e:?}"))?;
        for a in adds {
            let res = if a.is_rec { dec.add_recovery_shard(a.index, &a.data) } else { dec.add_original_shard(a.index, &a.data) };
            res.map_err(|e| format!("ancestor add: {e:?}"))?;
        }
        let res = dec.decode().map_err(|e| format!("ancestor decode: {e:?}"))?;
        Ok(res.restored_original_iter().map(|(i, s)| (i, s.to_vec())).collect())
    }
    if high {
        go::<HighRateDecoder<NoSimd>>(k, r, b, adds)
    } else {
        go::<LowRateDecoder<NoSimd>>(k, r, b, adds)
    }
}
