//! Sim B, one-shot functions: generated argument tuples for `encode` / `decode` judged against the
//! streaming sequence on a fresh ReedSolomonEncoder / ReedSolomonDecoder (C10) and R2's admissible sets (C06).

use std::collections::{BTreeMap, BTreeSet};

use reed_solomon_simd::{Error, ReedSolomonDecoder, ReedSolomonEncoder};
use simcore::envelope::{self, Family};
use simcore::Chooser;

use crate::common::*;
use crate::ev;
use crate::simb::make_stripe;

fn counts_for(ch: &mut Chooser) -> (usize, usize) {
    if ch.chance("os.badcounts", 1, 8) {
        match ch.pick("os.badwhich", 3) {
            0 => (gen_weird_count(ch), 1 + ch.pick_usize("os.r", 8)),
            1 => (1 + ch.pick_usize("os.k", 8), gen_weird_count(ch)),
            _ => (gen_weird_count(ch), gen_weird_count(ch)),
        }
    } else {
        let scale = ch.weighted("os.scale", &[8, 2]) as u8;
        gen_counts(ch, Family::Default, scale)
    }
}

/// Admissible errors of one-shot `encode(k, r, items)` (DESIGN appendix B).
pub fn encode_adm(k: usize, r: usize, lens: &[usize]) -> Vec<Error> {
    let mut adm = Vec::new();
    if !envelope::default_supported(k, r) {
        adm.push(Error::UnsupportedShardCount { original_count: k, recovery_count: r });
    }
    let n = lens.len();
    let first_bad = lens.iter().position(|l| *l != lens[0] || !envelope::ok_bytes(*l));
    if n < k {
        adm.push(Error::TooFewOriginalShards { original_count: k, original_received_count: n });
        if let Some(j) = first_bad {
            adm.push(Error::TooFewOriginalShards { original_count: k, original_received_count: j });
        }
    }
    if n > k {
        adm.push(Error::TooManyOriginalShards { original_count: k });
    }
    if n > 0 && !envelope::ok_bytes(lens[0]) {
        adm.push(Error::InvalidShardSize { shard_bytes: lens[0] });
    }
    for l in lens {
        if *l != lens[0] {
            adm.push(Error::DifferentShardSize { shard_bytes: lens[0], got: *l });
        }
    }
    adm
}

/// Admissible errors of one-shot `decode(k, r, originals, recovery)`.
pub fn decode_adm(k: usize, r: usize, orig: &[(usize, usize)], rec: &[(usize, usize)]) -> Vec<Error> {
    let mut adm = Vec::new();
    if !envelope::default_supported(k, r) {
        adm.push(Error::UnsupportedShardCount { original_count: k, recovery_count: r });
    }
    let bstar = rec.first().or(orig.first()).map(|(_, l)| *l);
    if let Some(b) = bstar {
        if !envelope::ok_bytes(b) {
            adm.push(Error::InvalidShardSize { shard_bytes: b });
        }
        for (_, l) in orig.iter().chain(rec.iter()) {
            if *l != b {
                adm.push(Error::DifferentShardSize { shard_bytes: b, got: *l });
            }
        }
    }
    let mut seen = BTreeSet::new();
    let (mut valid_o, mut acc_o, mut offended) = (0usize, 0usize, false);
    for (i, l) in orig {
        let mut bad = false;
        if *i >= k {
            adm.push(Error::InvalidOriginalShardIndex { original_count: k, index: *i });
            bad = true;
        } else if !seen.insert(*i) {
            adm.push(Error::DuplicateOriginalShardIndex { index: *i });
            bad = true;
        }
        if Some(*l) != bstar || !envelope::ok_bytes(*l) {
            bad = true;
        }
        if !bad {
            valid_o += 1;
            if !offended {
                acc_o += 1;
            }
        } else {
            offended = true;
        }
    }
    let mut seen = BTreeSet::new();
    let (mut valid_r, mut acc_r) = (0usize, 0usize);
    for (i, l) in rec {
        let mut bad = false;
        if *i >= r {
            adm.push(Error::InvalidRecoveryShardIndex { recovery_count: r, index: *i });
            bad = true;
        } else if !seen.insert(*i) {
            adm.push(Error::DuplicateRecoveryShardIndex { index: *i });
            bad = true;
        }
        if Some(*l) != bstar || !envelope::ok_bytes(*l) {
            bad = true;
        }
        if !bad {
            valid_r += 1;
            if !offended {
                acc_r += 1;
            }
        } else {
            offended = true;
        }
    }
    if valid_o + valid_r < k {
        for (o, p) in [(orig.len(), rec.len()), (valid_o, valid_r), (acc_o, acc_r)] {
            adm.push(Error::NotEnoughShards { original_count: k, original_received_count: o, recovery_received_count: p });
        }
    }
    if rec.is_empty() {
        // the property does not say which original fixes the size when no recovery shard is given
        let lens: BTreeSet<usize> = orig.iter().map(|(_, l)| *l).collect();
        for a in &lens {
            if !envelope::ok_bytes(*a) {
                adm.push(Error::InvalidShardSize { shard_bytes: *a });
            }
            for c in &lens {
                if a != c {
                    adm.push(Error::DifferentShardSize { shard_bytes: *a, got: *c });
                }
            }
        }
    }
    adm
}

fn bad_len(ch: &mut Chooser, b: usize) -> usize {
    match ch.pick("os.badlen", 6) {
        0 => 0,
        1 => b + 1,
        2 => b.saturating_sub(1),
        3 => b + 2,
        4 => 3,
        _ => b + 64,
    }
}

/// A legal but unusual iterator over `items`: its size_hint is honest but loose (lower bound below and upper bound
/// above the real number of remaining items, or no upper bound), and - if `extra` is not empty - it is not fused: after
/// its first `None` it yields the `extra` items when polled again. The sequence it *is* ends at the first `None`.
struct Odd<T: Clone> {
    items: std::vec::IntoIter<T>,
    slack_lo: usize,
    slack_hi: Option<usize>,
    ended: bool,
    extra: std::vec::IntoIter<T>,
    polled_after_end: std::rc::Rc<std::cell::Cell<u32>>,
}

impl<T: Clone> Odd<T> {
    fn new(items: Vec<T>, extra: Vec<T>, hint_seed: u64, polled_after_end: std::rc::Rc<std::cell::Cell<u32>>) -> Self {
        let slack_lo = (hint_seed % 5) as usize;
        let slack_hi = match (hint_seed >> 8) % 6 {
            5 => None,
            v => Some(v as usize),
        };
        Self { items: items.into_iter(), slack_lo, slack_hi, ended: false, extra: extra.into_iter(), polled_after_end }
    }
}

impl<T: Clone> Iterator for Odd<T> {
    type Item = T;
    fn next(&mut self) -> Option<T> {
        if self.ended {
            self.polled_after_end.set(self.polled_after_end.get() + 1);
            return self.extra.next();
        }
        let v = self.items.next();
        if v.is_none() {
            self.ended = true;
        }
        v
    }
    fn size_hint(&self) -> (usize, Option<usize>) {
        if self.ended {
            return (0, None);
        }
        let n = self.items.len();
        (n.saturating_sub(self.slack_lo), self.slack_hi.map(|h| n + h))
    }
}

/// Items that are leases on the source's single buffer (a reader that reuses one buffer, a bounded pool of one): while
/// an item is alive the source cannot produce the next one and ends instead. The streaming API never keeps a shard
/// after `add_*_shard` returns, so a one-shot call fed from such a source must release every item before it asks for
/// the next one of the same iterator.
struct Lease<T> {
    value: T,
    lent: std::rc::Rc<std::cell::Cell<bool>>,
}

impl<T> Drop for Lease<T> {
    fn drop(&mut self) {
        self.lent.set(false);
    }
}

impl<T: AsRef<[u8]>> AsRef<[u8]> for Lease<T> {
    fn as_ref(&self) -> &[u8] {
        self.value.as_ref()
    }
}

struct LeaseIter<T> {
    items: std::vec::IntoIter<T>,
    lent: std::rc::Rc<std::cell::Cell<bool>>,
    starved: std::rc::Rc<std::cell::Cell<u32>>,
}

impl<T> LeaseIter<T> {
    fn new(items: Vec<T>, starved: std::rc::Rc<std::cell::Cell<u32>>) -> Self {
        Self { items: items.into_iter(), lent: std::rc::Rc::new(std::cell::Cell::new(false)), starved }
    }
    /// The next raw item, with the buffer marked as lent out - or `None` while the previous lease is still alive.
    fn take(&mut self) -> Option<(T, std::rc::Rc<std::cell::Cell<bool>>)> {
        if self.lent.get() {
            self.starved.set(self.starved.get() + 1);
            return None;
        }
        let value = self.items.next()?;
        self.lent.set(true);
        Some((value, self.lent.clone()))
    }
}

/// For `encode`: the items are the leases themselves.
struct LeasedShards<T>(LeaseIter<T>);
impl<T> Iterator for LeasedShards<T> {
    type Item = Lease<T>;
    fn next(&mut self) -> Option<Lease<T>> {
        self.0.take().map(|(value, lent)| Lease { value, lent })
    }
}

/// For `decode`: (index, lease) pairs.
struct LeasedIndexed<T>(LeaseIter<(usize, T)>);
impl<T> Iterator for LeasedIndexed<T> {
    type Item = (usize, Lease<T>);
    fn next(&mut self) -> Option<(usize, Lease<T>)> {
        self.0.take().map(|((index, value), lent)| (index, Lease { value, lent }))
    }
}

pub fn run_oneshot(ch: &mut Chooser, ctx: &mut Ctx) {
    let n_ops = 2 + ch.pick_usize("ops", 10);
    ev!(ctx, "one-shot history: {n_ops} calls");
    for op_no in 0..n_ops {
        if ctx.stop {
            return;
        }
        if ch.chance("os.isdecode", 2, 3) {
            oneshot_decode(ch, ctx, op_no);
        } else {
            oneshot_encode(ch, ctx, op_no);
        }
    }
}

/// Joint volume: counts x shard size of 17 .. 72 MiB in ONE call (shard sizes above 128 KiB are otherwise only
/// combined with tiny counts). Strategies that switch on the total amount of data of a call (strips, tiles,
/// cache blocking, chunked copies) are only reached here. Valid calls only; encode is compared with the streaming
/// encoder, then the same stripe is decoded in one shot with as many originals lost as chosen.
fn oneshot_bulk(ch: &mut Chooser, ctx: &mut Ctx, op_no: usize) {
    let k = 2 + ch.pick_usize("os.bulk.k", 140);
    let r = 1 + ch.pick_usize("os.bulk.r", 40);
    let total = [17usize << 20, 24 << 20, 33 << 20, 40 << 20, 48 << 20, 65 << 20, 72 << 20][ch.pick_usize("os.bulk.total", 7)];
    let b = ((total / (k + r)) & !1) + 2 * ch.pick_usize("os.bulk.jitter", 33);
    let seed = ch.seed64("data.seed");
    let items: Vec<Vec<u8>> = (0..k).map(|i| gen_shard(seed, 0, i, b)).collect();
    ctx.count("oneshot.bulk_calls");
    ctx.distinct(&[0x0B0, (total >> 22) as u64, ((k + r).is_power_of_two()) as u64, (b % 64 != 0) as u64]);
    let owned = ch.chance("os.bulk.owned", 1, 2);
    let got = ctx.guarded(false, || if owned { reed_solomon_simd::encode(k, r, items.clone()) } else { reed_solomon_simd::encode(k, r, &items) });
    let got = match got {
        Ok(v) => v,
        Err(msg) => {
            ctx.viol(&["C10", "C09", "C06"], "no-panic", format!("panic/oneshot-encode/{}", panic_sig(&msg)), format!("encode({k}, {r}, {k} shards of {b} bytes) panicked: {msg}"), false);
            return;
        }
    };
    ev!(ctx, "#{op_no} bulk encode({k}, {r}, {k} shards of {b} bytes = {} MiB in one call) -> {:?}", (k + r) * b >> 20, got.as_ref().map(Vec::len));
    ctx.hash.feed_u64(got.as_ref().err().map_or(0, err_code));
    let streaming = ctx.shadow(|| -> Result<Vec<Vec<u8>>, Error> {
        let mut enc = ReedSolomonEncoder::new(k, r, b)?;
        for s in &items {
            enc.add_original_shard(s)?;
        }
        let res = enc.encode()?;
        Ok(res.recovery_iter().map(<[u8]>::to_vec).collect())
    });
    let streaming = match streaming {
        Ok(Ok(v)) => v,
        other => {
            ctx.viol(&["C06"], "verdict", "verdict/streaming-encode/bulk".into(), format!("streaming encoder ({k}, {r}, {b}) failed on valid input: {:?}", other.map(|r| r.map(|v| v.len()))), false);
            return;
        }
    };
    let rec = match got {
        Ok(g) => {
            ctx.count("c10.oneshot_encode_compared");
            if g != streaming {
                let sh = g.iter().zip(&streaming).position(|(a, b)| a != b);
                let at = sh.and_then(|i| g[i].iter().zip(&streaming[i]).position(|(a, b)| a != b));
                ctx.viol(&["C10", "C09"], "oneshot-equals-streaming", "oneshot/encode/bytes".into(), format!("encode({k}, {r}, {k} shards of {b} bytes, {} MiB in one call) returns other bytes than the streaming encoder (first difference: recovery shard {sh:?} byte {at:?}, lengths {:?}..)", (k + r) * b >> 20, g.iter().take(3).map(Vec::len).collect::<Vec<_>>()), false);
                return;
            }
            g
        }
        Err(e) => {
            ctx.viol(&["C10", "C09", "C06", "C08"], "oneshot-equals-streaming", format!("oneshot/encode/{}", err_name(&e)), format!("encode({k}, {r}, {k} shards of {b} bytes) returned Err({e:?}) where the streaming sequence succeeds"), false);
            return;
        }
    };
    // the same stripe back through one-shot decode
    let lose = 1 + ch.pick_usize("os.bulk.lose", r.min(k));
    let first_lost = ch.pick_usize("os.bulk.firstlost", k - lose + 1);
    let rec_from = ch.pick_usize("os.bulk.recfrom", r - lose + 1);
    let lost = |i: usize| i >= first_lost && i < first_lost + lose;
    let dec = ctx.guarded(false, || {
        reed_solomon_simd::decode(
            k,
            r,
            items.iter().enumerate().filter(|(i, _)| !lost(*i)).map(|(i, s)| (i, &s[..])),
            rec.iter().enumerate().skip(rec_from).take(lose).map(|(i, s)| (i, &s[..])),
        )
    });
    ctx.count("oneshot.bulk_decodes");
    match dec {
        Err(msg) => {
            ctx.viol(&["C10", "C09", "C06"], "no-panic", format!("panic/oneshot-decode/{}", panic_sig(&msg)), format!("bulk decode({k}, {r}, shards of {b} bytes) panicked: {msg}"), false);
        }
        Ok(Err(e)) => { ctx.viol(&["C10", "C09", "C06", "C01"], "oneshot-equals-streaming", format!("oneshot/decode/{}", err_name(&e)), format!("decode({k}, {r}, {} originals and {lose} recovery shards of {b} bytes) returned Err({e:?}) on valid, sufficient input", k - lose), false); }
        Ok(Ok(map)) => {
            let mut idx: Vec<usize> = map.keys().copied().collect();
            idx.sort_unstable();
            let want: Vec<usize> = (first_lost..first_lost + lose).collect();
            if idx != want || want.iter().any(|i| map[i] != items[*i]) {
                ctx.viol(&["C10", "C09", "C01"], "restores-original-bytes", "oneshot/decode/bulk-bytes".into(), format!("decode({k}, {r}, shards of {b} bytes, originals {first_lost}..{} lost, recovery {rec_from}..{}) restored indexes {:?}.. with wrong bytes or the wrong set", first_lost + lose, rec_from + lose, &idx[..idx.len().min(6)]), false);
            }
        }
    }
}

fn oneshot_encode(ch: &mut Chooser, ctx: &mut Ctx, op_no: usize) {
    if ch.chance("os.enc.bulk", 1, 3000) {
        return oneshot_bulk(ch, ctx, op_no);
    }
    let (k, r) = counts_for(ch);
    let b = if ch.chance("os.badfirst", 1, 10) { gen_bad_bytes(ch).min(67) } else { gen_bytes(ch, 194) };
    let kk = k.min(400);
    let n = match ch.weighted("os.enc.n", &[6, 1, 1, 1]) {
        0 => kk,
        1 => 0,
        2 => kk.saturating_sub(1 + ch.pick_usize("os.enc.few", 3)),
        _ => kk + 1 + ch.pick_usize("os.enc.many", 3),
    };
    let seed = ch.seed64("data.seed");
    let mut items: Vec<Vec<u8>> = (0..n).map(|i| gen_shard(seed, 0, i, b)).collect();
    if n > 0 && ch.chance("os.enc.mixed", 1, 4) {
        let j = ch.pick_usize("os.enc.badidx", n);
        let l = bad_len(ch, b);
        items[j] = vec![7u8; l];
        ctx.count("fault.F7.wrong_length");
    }
    let lens: Vec<usize> = items.iter().map(Vec::len).collect();
    let adm = encode_adm(k, r, &lens);
    ctx.distinct(&[0x05E, u64::from(adm.is_empty()), n.cmp(&k) as u64, (b % 64 != 0) as u64, adm.first().map_or(0, err_code)]);

    let iter_kind = ch.pick("os.enc.iterkind", 8);
    ctx.count(["oneshot.iter_exact", "oneshot.iter_filter", "oneshot.iter_unsized", "oneshot.iter_owned", "oneshot.iter_reentrant", "oneshot.iter_loose_hint", "oneshot.iter_not_fused", "oneshot.iter_leases"][iter_kind as usize]);
    let starved = std::rc::Rc::new(std::cell::Cell::new(0u32));
    let nested_failures = std::cell::Cell::new(0u32);
    let hint_seed = ch.seed64("os.enc.hint");
    let polled = std::rc::Rc::new(std::cell::Cell::new(0u32));
    let got = ctx.guarded(false, || match iter_kind {
        7 => reed_solomon_simd::encode(k, r, LeasedShards(LeaseIter::new(items.clone(), starved.clone()))),
        5 => reed_solomon_simd::encode(k, r, Odd::new(items.iter().collect::<Vec<_>>(), Vec::new(), hint_seed, polled.clone())),
        6 => {
            // not fused: polled again after its first None it would hand out two more (well-formed) shards
            let extra_items: Vec<Vec<u8>> = (0..2).map(|i| gen_shard(seed ^ 0xE, 0, 1000 + i, b)).collect();
            reed_solomon_simd::encode(k, r, Odd::new(items.clone(), extra_items, hint_seed, polled.clone()))
        }
        0 => reed_solomon_simd::encode(k, r, &items),
        1 => reed_solomon_simd::encode(k, r, items.iter().filter(|_| true)),
        2 => {
            let mut it = items.iter();
            reed_solomon_simd::encode(k, r, std::iter::from_fn(move || it.next()))
        }
        3 => reed_solomon_simd::encode(k, r, items.clone()),
        _ => {
            let mut it = items.iter();
            let nf = &nested_failures;
            reed_solomon_simd::encode(
                k,
                r,
                std::iter::from_fn(move || {
                    if !nested_roundtrip_ok() {
                        nf.set(nf.get() + 1);
                    }
                    it.next()
                }),
            )
        }
    });
    if nested_failures.get() > 0 {
        ctx.viol(&["C10", "C09", "C06"], "oneshot-equals-streaming", "oneshot/nested-call-wrong".into(), format!("a one-shot encode/decode round trip made from inside the iterator of encode({k}, {r}, ..) gave a wrong result {} times", nested_failures.get()), false);
        return;
    }
    let got = match got {
        Ok(v) => v,
        Err(msg) => {
            ctx.viol(&["C10", "C09", "C06"], "no-panic", format!("panic/oneshot-encode/{}", panic_sig(&msg)), format!("encode({k}, {r}, {n} shards) panicked: {msg}"), false);
            return;
        }
    };
    ev!(ctx, "#{op_no} encode({k}, {r}, {n} shards, lens {:?}..) -> {:?}", &lens[..lens.len().min(6)], got.as_ref().map(Vec::len));
    ctx.hash.feed_u64(got.as_ref().err().map_or(0, err_code));
    ctx.count("oneshot.encode_calls");

    // the streaming sequence the property names
    let streaming = ctx.shadow(|| -> Result<Vec<Vec<u8>>, Error> {
        let Some(first) = items.first() else {
            // no shard to infer the size from: the streaming encoder for any size ends in TooFew
            return Err(Error::TooFewOriginalShards { original_count: k, original_received_count: 0 });
        };
        let mut enc = ReedSolomonEncoder::new(k, r, first.len())?;
        for s in &items {
            enc.add_original_shard(s)?;
        }
        let res = enc.encode()?;
        Ok(res.recovery_iter().map(<[u8]>::to_vec).collect())
    });
    let streaming = match streaming {
        Ok(v) => v,
        Err(msg) => {
            ctx.viol(&["C06"], "no-panic", format!("panic/streaming-encode/{}", panic_sig(&msg)), format!("streaming encoder panicked: {msg}"), false);
            return;
        }
    };
    match (&streaming, &got) {
        (Ok(s), Ok(g)) => {
            ctx.count("c10.oneshot_encode_compared");
            if s != g {
                ctx.viol(&["C10", "C09"], "oneshot-equals-streaming", "oneshot/encode/bytes".into(), format!("encode({k}, {r}, ..) returns other bytes than the streaming encoder"), false);
            }
        }
        (Ok(_), Err(e)) => {
            ctx.viol(&["C10", "C09", "C06", "C08"], "oneshot-equals-streaming", format!("oneshot/encode/{}", err_name(e)), format!("encode({k}, {r}, {n} shards) returned Err({e:?}) where the streaming sequence succeeds"), false);
        }
        (Err(se), Ok(_)) => {
            ctx.viol(&["C10", "C06"], "oneshot-equals-streaming", "oneshot/encode/ok-where-streaming-fails".into(), format!("encode({k}, {r}, {n} shards, lens {:?}) returned Ok where the streaming sequence fails with {se:?}", &lens[..lens.len().min(8)]), false);
        }
        (Err(_), Err(e)) => {
            ctx.count("oneshot.errors_judged");
            if !adm.contains(e) {
                ctx.viol(&["C10", "C06"], "verdict", format!("verdict/oneshot-encode/{}", err_name(e)), format!("encode({k}, {r}, {n} shards, lens {:?}) returned Err({e:?}), which does not describe a violated precondition; admissible: {adm:?}", &lens[..lens.len().min(8)]), false);
            }
        }
    }
    if got.is_ok() != adm.is_empty() && streaming.is_ok() == got.is_ok() {
        // both agree with each other but not with R2: valid use failed or invalid use succeeded
        ctx.viol(&["C06"], "verdict", "verdict/oneshot-encode/r2".into(), format!("encode({k}, {r}, {n} shards) -> {:?}; R2 admissible errors: {adm:?}", got.as_ref().map(Vec::len)), false);
    }
}

fn oneshot_decode(ch: &mut Chooser, ctx: &mut Ctx, op_no: usize) {
    let (k, r) = counts_for(ch);
    let supported = envelope::default_supported(k, r);
    let b = gen_bytes(ch, 194);
    // a real stripe to draw shards from (only when the counts are usable)
    let (sk, sr) = if supported && k + r <= 600 { (k, r) } else { (3, 2) };
    let Some(stripe) = make_stripe(ctx, Family::Default, (sk, sr, b), ch.seed64("data.seed"), 0) else { return };

    // which shards are given
    let mode = ch.weighted("os.dec.mode", &[4, 2, 2, 1, 1]);
    let mut orig_idx: Vec<usize> = Vec::new();
    let mut rec_idx: Vec<usize> = Vec::new();
    match mode {
        0 => {
            // random sufficient subset
            let lose = ch.pick_usize("os.dec.lose", sr + 1);
            let mut all: Vec<(bool, usize)> = (0..sk).map(|i| (false, i)).chain((0..sr).map(|i| (true, i))).collect();
            for _ in 0..lose {
                let j = ch.pick_usize("os.dec.which", all.len());
                all.swap_remove(j);
            }
            for (is_rec, i) in all {
                if is_rec { rec_idx.push(i) } else { orig_idx.push(i) }
            }
            orig_idx.sort_unstable();
            rec_idx.sort_unstable();
        }
        1 => {
            // no recovery shards at all ("all recovery nodes down"), all or some originals
            orig_idx = (0..sk).collect();
            if ch.chance("os.dec.norec.missing", 1, 2) && sk > 0 {
                let j = ch.pick_usize("os.dec.norec.drop", sk);
                orig_idx.remove(j);
            }
            ctx.count("probe.oneshot_no_recovery_given");
        }
        2 => {
            // too few
            orig_idx = (0..sk).collect();
            let keep = ch.pick_usize("os.dec.keep", sk);
            orig_idx.truncate(keep);
            if ch.chance("os.dec.somerec", 1, 2) && sk - keep > 1 {
                rec_idx = (0..(sk - keep - 1).min(sr)).collect();
            }
        }
        3 => {
            // all originals lost
            rec_idx = (0..sr).collect();
        }
        _ => {
            orig_idx = (0..sk).collect();
            rec_idx = (0..sr).collect();
        }
    }
    let mut orig: Vec<(usize, Vec<u8>)> = orig_idx.iter().map(|i| (*i, stripe.originals[*i].clone())).collect();
    let mut rec: Vec<(usize, Vec<u8>)> = rec_idx.iter().map(|i| (*i, stripe.recovery[*i].clone())).collect();

    // structural damage (F2 duplicate, F7 torn, F8 misdirected)
    let n_faults = ch.weighted("os.dec.faults", &[5, 3, 1]);
    for _ in 0..n_faults {
        let on_rec = !rec.is_empty() && (orig.is_empty() || ch.chance("os.dec.f.onrec", 1, 2));
        let list = if on_rec { &mut rec } else { &mut orig };
        if list.is_empty() {
            continue;
        }
        let j = ch.pick_usize("os.dec.f.which", list.len());
        match ch.pick("os.dec.f.kind", 4) {
            0 => {
                let dup = list[ch.pick_usize("os.dec.f.dupof", list.len())].clone();
                let at = ch.pick_usize("os.dec.f.dupat", list.len() + 1);
                list.insert(at, dup);
                ctx.count("fault.F2.duplicate_add");
            }
            1 => {
                let count = if on_rec { r } else { k };
                list[j].0 = match ch.pick("os.dec.f.idx", 5) {
                    0 => count,
                    1 => count.saturating_add(1),
                    2 => usize::MAX,
                    3 => usize::MAX - count.min(65536),
                    _ => 65536,
                };
                ctx.count("fault.F8.index_out_of_range");
            }
            2 => {
                let l = bad_len(ch, b);
                list[j].1 = vec![9u8; l];
                ctx.count("fault.F7.wrong_length");
            }
            _ => {
                // in-range misdirection onto an index already present (a duplicate by index)
                if list.len() >= 2 {
                    let other = list[(j + 1) % list.len()].0;
                    list[j].0 = other;
                    ctx.count("fault.F8.index_collision");
                }
            }
        }
    }

    // silent damage (F6 passed on unverified): one or all of the given shards carry arbitrary bytes of the right
    // length. What is restored then is unspecified, but the one-shot call and the streaming decoder are given the
    // same shards and must still agree byte for byte (no shortcut may assume that the shards are mutually consistent).
    let mut garbled = false;
    if ch.chance("os.dec.garble", 1, 5) {
        let all = ch.chance("os.dec.garble.all", 1, 3);
        let mut p = simcore::prng::Prng::new(ch.seed64("os.dec.garble.seed"));
        let total = orig.len() + rec.len();
        let pick = if total > 0 { p.below(total as u64) as usize } else { 0 };
        for (n, (_, s)) in orig.iter_mut().chain(rec.iter_mut()).enumerate() {
            if all || n == pick {
                p.fill(s);
                garbled = true;
            }
        }
        if garbled {
            ctx.count("fault.F20.inconsistent_payloads");
        }
    }

    let o_meta: Vec<(usize, usize)> = orig.iter().map(|(i, s)| (*i, s.len())).collect();
    let r_meta: Vec<(usize, usize)> = rec.iter().map(|(i, s)| (*i, s.len())).collect();
    let adm = decode_adm(k, r, &o_meta, &r_meta);
    ctx.distinct(&[0x0D0, u64::from(adm.is_empty()), mode as u64, n_faults as u64, u64::from(rec.is_empty()), adm.first().map_or(0, err_code)]);

    // the arguments are `IntoIterator`s: the same items are handed over through iterators of different kinds
    // (exact size hint, no lower bound, unknown upper bound, owned items); the outcome must not depend on that
    let iter_kind = ch.pick("os.dec.iterkind", 8);
    ctx.count(["oneshot.iter_exact", "oneshot.iter_filter", "oneshot.iter_unsized", "oneshot.iter_owned", "oneshot.iter_reentrant", "oneshot.iter_loose_hint", "oneshot.iter_not_fused", "oneshot.iter_leases"][iter_kind as usize]);
    let starved = std::rc::Rc::new(std::cell::Cell::new(0u32));
    let nested_failures = std::cell::Cell::new(0u32);
    let hint_seed = ch.seed64("os.dec.hint");
    let polled = std::rc::Rc::new(std::cell::Cell::new(0u32));
    // what a non-fused iterator would hand out after its first None: shards of the stripe that were NOT given
    let extra_o: Vec<(usize, Vec<u8>)> = (0..sk).filter(|i| !orig.iter().any(|(j, _)| j == i)).take(2).map(|i| (i, stripe.originals[i].clone())).collect();
    let extra_r: Vec<(usize, Vec<u8>)> = (0..sr).filter(|i| !rec.iter().any(|(j, _)| j == i)).take(2).map(|i| (i, stripe.recovery[i].clone())).collect();
    let got = ctx.guarded(false, || match iter_kind {
        // one buffer per source: the originals' reader and the recovery shards' reader each lend out one item at a time
        7 => reed_solomon_simd::decode(k, r, LeasedIndexed(LeaseIter::new(orig.clone(), starved.clone())), LeasedIndexed(LeaseIter::new(rec.clone(), starved.clone()))),
        5 => reed_solomon_simd::decode(k, r, Odd::new(orig.clone(), Vec::new(), hint_seed, polled.clone()), Odd::new(rec.clone(), Vec::new(), hint_seed >> 16, polled.clone())),
        6 => reed_solomon_simd::decode(k, r, Odd::new(orig.clone(), extra_o.clone(), hint_seed, polled.clone()), Odd::new(rec.clone(), extra_r.clone(), hint_seed >> 16, polled.clone())),
        0 => reed_solomon_simd::decode(k, r, orig.iter().map(|(i, s)| (*i, &s[..])), rec.iter().map(|(i, s)| (*i, &s[..]))),
        1 => reed_solomon_simd::decode(k, r, orig.iter().filter(|_| true).map(|(i, s)| (*i, &s[..])), rec.iter().filter(|_| true).map(|(i, s)| (*i, &s[..]))),
        2 => {
            let mut oi = orig.iter();
            let mut ri = rec.iter();
            reed_solomon_simd::decode(k, r, std::iter::from_fn(move || oi.next().map(|(i, s)| (*i, &s[..]))), std::iter::from_fn(move || ri.next().map(|(i, s)| (*i, &s[..]))))
        }
        3 => reed_solomon_simd::decode(k, r, orig.clone(), rec.clone()),
        _ => {
            // the caller's iterators call back into the one-shot functions while the outer call is running
            // (lazily produced shards, e.g. a product code): the crate must be re-entrant on one thread
            let mut oi = orig.iter();
            let mut ri = rec.iter();
            let nf = &nested_failures;
            reed_solomon_simd::decode(
                k,
                r,
                std::iter::from_fn(move || {
                    if !nested_roundtrip_ok() {
                        nf.set(nf.get() + 1);
                    }
                    oi.next().map(|(i, s)| (*i, &s[..]))
                }),
                std::iter::from_fn(move || {
                    if !nested_roundtrip_ok() {
                        nf.set(nf.get() + 1);
                    }
                    ri.next().map(|(i, s)| (*i, &s[..]))
                }),
            )
        }
    });
    if nested_failures.get() > 0 {
        ctx.viol(&["C10", "C09", "C06"], "oneshot-equals-streaming", "oneshot/nested-call-wrong".into(), format!("a one-shot encode/decode round trip made from inside the iterator of decode({k}, {r}, ..) gave a wrong result {} times", nested_failures.get()), false);
        return;
    }
    let got = match got {
        Ok(v) => v.map(|m| m.into_iter().collect::<BTreeMap<usize, Vec<u8>>>()),
        Err(msg) => {
            ctx.viol(&["C10", "C09", "C06"], "no-panic", format!("panic/oneshot-decode/{}", panic_sig(&msg)), format!("decode({k}, {r}, originals {o_meta:?}, recovery {r_meta:?}) panicked: {msg}"), false);
            return;
        }
    };
    ev!(ctx, "#{op_no} decode({k}, {r}, originals (index,len) {o_meta:?}, recovery {r_meta:?}) -> {:?}", got.as_ref().map(|m| m.keys().copied().collect::<Vec<_>>()));
    ctx.hash.feed_u64(got.as_ref().err().map_or(0, err_code));
    ctx.count("oneshot.decode_calls");

    // streaming sequence on a fresh ReedSolomonDecoder created for the inferred size
    let bstar = rec.first().or(orig.first()).map(|(_, s)| s.len());
    let streaming = ctx.shadow(|| -> Result<BTreeMap<usize, Vec<u8>>, Error> {
        let Some(bs) = bstar else {
            if !ReedSolomonDecoder::supports(k, r) {
                return Err(Error::UnsupportedShardCount { original_count: k, recovery_count: r });
            }
            return Err(Error::NotEnoughShards { original_count: k, original_received_count: 0, recovery_received_count: 0 });
        };
        let mut dec = ReedSolomonDecoder::new(k, r, bs)?;
        for (i, s) in &orig {
            dec.add_original_shard(*i, s)?;
        }
        for (i, s) in &rec {
            dec.add_recovery_shard(*i, s)?;
        }
        let res = dec.decode()?;
        Ok(res.restored_original_iter().map(|(i, s)| (i, s.to_vec())).collect())
    });
    let streaming = match streaming {
        Ok(v) => v,
        Err(msg) => {
            ctx.viol(&["C06"], "no-panic", format!("panic/streaming-decode/{}", panic_sig(&msg)), format!("streaming decoder panicked on the same delivery: {msg}"), false);
            return;
        }
    };
    match (&streaming, &got) {
        (Ok(s), Ok(g)) => {
            ctx.count("c10.oneshot_decode_compared");
            if s != g {
                ctx.viol(&["C10", "C09"], "oneshot-equals-streaming", "oneshot/decode/bytes".into(), format!("decode({k}, {r}, ..) restores other shards than the streaming decoder"), false);
            }
        }
        (Ok(_), Err(e)) => {
            ctx.viol(&["C10", "C09", "C06", "C08"], "oneshot-equals-streaming", format!("oneshot/decode/{}", err_name(e)), format!("decode({k}, {r}, originals {o_meta:?}, recovery {r_meta:?}) returned Err({e:?}) where the streaming sequence succeeds"), false);
        }
        (Err(se), Ok(g)) => {
            ctx.viol(&["C10"], "oneshot-equals-streaming", format!("oneshot/decode/ok-where-streaming-fails/{}", if rec.is_empty() { "no-recovery-given" } else { "with-recovery" }), format!("decode({k}, {r}, originals (index,len) {o_meta:?}, recovery {r_meta:?}) returned Ok({} restored) where the streaming sequence fails with {se:?}", g.len()), false);
        }
        (Err(_), Err(e)) => {
            ctx.count("oneshot.errors_judged");
            if !adm.contains(e) {
                ctx.viol(&["C10", "C06"], "verdict", format!("verdict/oneshot-decode/{}", err_name(e)), format!("decode({k}, {r}, originals {o_meta:?}, recovery {r_meta:?}) returned Err({e:?}), which does not describe a violated precondition; admissible: {adm:?}"), false);
            }
        }
    }
    if got.is_ok() != adm.is_empty() && streaming.is_ok() == got.is_ok() {
        ctx.viol(&["C06"], "verdict", "verdict/oneshot-decode/r2".into(), format!("decode({k}, {r}, originals {o_meta:?}, recovery {r_meta:?}) -> {:?}; R2 admissible errors: {adm:?}", got.as_ref().map(BTreeMap::len)), false);
    }
    // data: what was restored must be the original bytes (only when the stripe matches the counts)
    if let (Ok(g), true) = (&got, (sk, sr) == (k, r) && n_faults == 0 && !garbled) {
        for (i, s) in g {
            if s != &stripe.originals[*i] {
                ctx.viol(&["C01", "C10"], "restores-original-bytes", "restore/oneshot".into(), format!("decode({k}, {r}, ..): restored original {i} differs from the encoded original"), false);
                break;
            }
        }
    }
}

/// R2 self-test: the admissible-error sets against hand-written call / expectation pairs taken from the
/// crate's documented error tests (the expected error must be admissible; valid calls must have no
/// admissible error; a few errors that would be untruthful must not be admissible).
pub fn self_test() -> Result<(), String> {
    use Error::*;
    let e = |k, r, lens: &[usize], want: Option<Error>, never: Option<Error>| -> Result<(), String> {
        let adm = encode_adm(k, r, lens);
        match want {
            Some(w) if !adm.contains(&w) => return Err(format!("R2 self-test: encode({k},{r},{lens:?}) must admit {w:?}, admits {adm:?}")),
            None if !adm.is_empty() => return Err(format!("R2 self-test: encode({k},{r},{lens:?}) is valid but admits {adm:?}")),
            _ => {}
        }
        if let Some(n) = never {
            if adm.contains(&n) {
                return Err(format!("R2 self-test: encode({k},{r},{lens:?}) must not admit {n:?}"));
            }
        }
        Ok(())
    };
    e(2, 1, &[64, 128], Some(DifferentShardSize { shard_bytes: 64, got: 128 }), Some(DifferentShardSize { shard_bytes: 128, got: 64 }))?;
    e(1, 1, &[0], Some(InvalidShardSize { shard_bytes: 0 }), None)?;
    e(1, 1, &[], Some(TooFewOriginalShards { original_count: 1, original_received_count: 0 }), Some(TooManyOriginalShards { original_count: 1 }))?;
    e(1, 1, &[64, 64], Some(TooManyOriginalShards { original_count: 1 }), Some(TooFewOriginalShards { original_count: 1, original_received_count: 2 }))?;
    e(0, 1, &[], Some(UnsupportedShardCount { original_count: 0, recovery_count: 1 }), None)?;
    e(1, 0, &[64], Some(UnsupportedShardCount { original_count: 1, recovery_count: 0 }), None)?;
    e(3, 2, &[64, 64, 64], None, None)?;
    e(3, 2, &[66, 66, 66], None, None)?;
    e(3, 2, &[63, 63, 63], Some(InvalidShardSize { shard_bytes: 63 }), Some(DifferentShardSize { shard_bytes: 63, got: 63 }))?;

    let d = |k, r, o: &[(usize, usize)], rc: &[(usize, usize)], want: Option<Error>, never: Option<Error>| -> Result<(), String> {
        let adm = decode_adm(k, r, o, rc);
        match want {
            Some(w) if !adm.contains(&w) => return Err(format!("R2 self-test: decode({k},{r},{o:?},{rc:?}) must admit {w:?}, admits {adm:?}")),
            None if !adm.is_empty() => return Err(format!("R2 self-test: decode({k},{r},{o:?},{rc:?}) is valid but admits {adm:?}")),
            _ => {}
        }
        if let Some(n) = never {
            if adm.contains(&n) {
                return Err(format!("R2 self-test: decode({k},{r},{o:?},{rc:?}) must not admit {n:?}"));
            }
        }
        Ok(())
    };
    d(1, 1, &[(0, 64)], &[], None, None)?;
    d(2, 1, &[(0, 64), (1, 128)], &[(0, 64)], Some(DifferentShardSize { shard_bytes: 64, got: 128 }), None)?;
    d(1, 2, &[(0, 64)], &[(0, 64), (1, 128)], Some(DifferentShardSize { shard_bytes: 64, got: 128 }), None)?;
    d(1, 1, &[(0, 0)], &[(0, 64)], Some(DifferentShardSize { shard_bytes: 64, got: 0 }), Some(InvalidShardSize { shard_bytes: 64 }))?;
    d(2, 1, &[(0, 64), (0, 64)], &[(0, 64)], Some(DuplicateOriginalShardIndex { index: 0 }), Some(DuplicateRecoveryShardIndex { index: 0 }))?;
    d(1, 2, &[(0, 64)], &[(0, 64), (0, 64)], Some(DuplicateRecoveryShardIndex { index: 0 }), Some(DuplicateOriginalShardIndex { index: 0 }))?;
    d(1, 1, &[(1, 64)], &[(0, 64)], Some(InvalidOriginalShardIndex { original_count: 1, index: 1 }), None)?;
    d(1, 1, &[(0, 64)], &[(1, 64)], Some(InvalidRecoveryShardIndex { recovery_count: 1, index: 1 }), None)?;
    d(1, 1, &[(0, 64)], &[(0, 0)], Some(InvalidShardSize { shard_bytes: 0 }), None)?;
    d(1, 1, &[], &[], Some(NotEnoughShards { original_count: 1, original_received_count: 0, recovery_received_count: 0 }), None)?;
    d(0, 1, &[], &[], Some(UnsupportedShardCount { original_count: 0, recovery_count: 1 }), None)?;
    d(1, 0, &[], &[], Some(UnsupportedShardCount { original_count: 1, recovery_count: 0 }), None)?;
    // the C10 cases: no recovery shards given and something wrong with the originals -> never Ok
    d(2, 1, &[(0, 64), (0, 64)], &[], Some(DuplicateOriginalShardIndex { index: 0 }), None)?;
    d(2, 1, &[(7, 64), (0, 64)], &[], Some(InvalidOriginalShardIndex { original_count: 2, index: 7 }), None)?;
    d(2, 1, &[(0, 63), (1, 63)], &[], Some(InvalidShardSize { shard_bytes: 63 }), None)?;
    d(3, 2, &[(0, 64), (2, 64)], &[(1, 64)], None, None)?;
    d(3, 2, &[(0, 64)], &[(1, 64)], Some(NotEnoughShards { original_count: 3, original_received_count: 1, recovery_received_count: 1 }), Some(NotEnoughShards { original_count: 3, original_received_count: 0, recovery_received_count: 2 }))?;

    // configuration calls
    let c = |fam, k, r, b, want: &[Error]| -> Result<(), String> {
        let adm = config_adm(fam, k, r, b);
        if adm != want {
            return Err(format!("R2 self-test: config_adm({fam:?},{k},{r},{b}) = {adm:?}, expected {want:?}"));
        }
        Ok(())
    };
    c(Family::Default, 3, 2, 64, &[])?;
    c(Family::Default, 3, 2, 63, &[InvalidShardSize { shard_bytes: 63 }])?;
    c(Family::Default, 3, 2, 0, &[InvalidShardSize { shard_bytes: 0 }])?;
    c(Family::Default, 0, 2, 64, &[UnsupportedShardCount { original_count: 0, recovery_count: 2 }])?;
    c(Family::High, 4096, 61440, 64, &[UnsupportedShardCount { original_count: 4096, recovery_count: 61440 }])?;
    c(Family::Low, 4096, 61440, 64, &[])?;
    c(Family::High, 61440, 4096, 2, &[])?;
    c(Family::Low, 61440, 4096, 2, &[UnsupportedShardCount { original_count: 61440, recovery_count: 4096 }])?;
    c(Family::Default, 65536, 1, 1, &[UnsupportedShardCount { original_count: 65536, recovery_count: 1 }, InvalidShardSize { shard_bytes: 1 }])?;
    Ok(())
}


/// A tiny one-shot round trip (2 originals, 1 recovery, 2-byte shards), used from inside iterators.
fn nested_roundtrip_ok() -> bool {
    let originals = [[0x12u8, 0x34], [0xABu8, 0xCD]];
    let Ok(rec) = reed_solomon_simd::encode(2, 1, originals) else { return false };
    let Ok(restored) = reed_solomon_simd::decode(2, 1, [(1usize, originals[1])], [(0usize, &rec[0])]) else { return false };
    restored.len() == 1 && restored.get(&0).map(Vec::as_slice) == Some(&originals[0][..])
}
