//! Sim D - CPU mask (placeholder until implemented).
use crate::common::Ctx;
use simcore::Chooser;
pub fn run_cpu(_ch: &mut Chooser, _ctx: &mut Ctx) {}
