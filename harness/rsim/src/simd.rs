//! Sim D - the CPU the code thinks it runs on (C14).
//!
//! Every run enumerates all four subsets of {avx2, ssse3} as the detection result (hook H2 can only
//! narrow what the host really reports) and reads the ISA trace (hook H3) of a full encode + decode round
//! of a codec built on `DefaultEngine`.

use reed_solomon_simd::verif::{self, Trace, ISA_AVX2, ISA_NEON, ISA_SSSE3};
use reed_solomon_simd::Error;
use simcore::envelope::{self, Family};
use simcore::prng::Prng;
use simcore::Chooser;

use crate::codec::*;
use crate::common::*;
use crate::ev;
use crate::oracles::*;

const PRIMS: [&str; 4] = ["fft", "ifft", "mul", "eval_poly"];

fn best_isa(mask: u32) -> Option<usize> {
    if mask & verif::MASK_AVX2 != 0 && std::is_x86_feature_detected!("avx2") {
        Some(ISA_AVX2)
    } else if mask & verif::MASK_SSSE3 != 0 && std::is_x86_feature_detected!("ssse3") {
        Some(ISA_SSSE3)
    } else {
        None
    }
}

fn isa_name(i: usize) -> &'static str {
    match i {
        ISA_AVX2 => "avx2",
        ISA_SSSE3 => "ssse3",
        ISA_NEON => "neon",
        _ => "?",
    }
}

pub fn run_cpu(ch: &mut Chooser, ctx: &mut Ctx) {
    let layer = Layer::ALL[ch.pick_usize("cpu.layer", 4)];
    let fam = layer.family();
    let scale = ch.weighted("cpu.scale", &[80, 20]) as u8;
    // one run in fifty codes a few long shards (16 KiB .. 1 MiB)
    let big = ch.chance("cpu.big", 1, 50);
    let (k, r) = gen_counts(ch, fam, if big { 4 } else { scale });
    let b = if big { gen_bytes_big(ch) } else { gen_bytes(ch, 258) };
    let high = envelope::effective_high(fam, k, r);
    let kind = Kind { layer, engine: EngineKind::Default };
    let data_seed = ch.seed64("data.seed");
    let data_mode = ch.weighted("cpu.datamode", &[4, 1, 1, 2, 4]) as u8;
    let originals: Vec<Vec<u8>> = (0..k).map(|i| gen_shard(data_seed, data_mode, i, b)).collect();
    // loss pattern: lose up to r shards
    let lose = 1 + ch.pick_usize("cpu.lose", r.min(k + r - 1));
    let mut all: Vec<(bool, usize)> = (0..k).map(|i| (false, i)).chain((0..r).map(|j| (true, j))).collect();
    let mut p = Prng::new(ch.seed64("cpu.lossseed"));
    // make sure at least one original is lost so that decode really runs eval_poly
    all.swap_remove(p.below(k as u64) as usize);
    for _ in 1..lose.min(r) {
        let at = p.below(all.len() as u64) as usize;
        all.swap_remove(at);
    }
    ev!(ctx, "cpu-mask run: {} ({k},{r},{b}) {} rate, {} shards delivered", kind.name(), if high { "high" } else { "low" }, all.len());
    ctx.arm_poison(ch.seed64("poison.seed"), 1);

    let mut reference: Option<(Vec<Vec<u8>>, std::collections::BTreeMap<usize, Vec<u8>>)> = None;
    let prim_seed = ch.seed64("cpu.primseed");
    let mut prim_reference: Option<u64> = None;
    // all four subsets, in a seeded order
    let mut masks = [3u32, 2, 1, 0];
    let rot = ch.pick_usize("cpu.maskorder", 4);
    masks.rotate_left(rot);
    for mask_bits in masks {
        let mask = mask_bits | !3u32;
        ctx.cpu_mask = mask;
        let best = best_isa(mask);
        let _ = verif::take_trace();
        let out = ctx.guarded(true, || -> Result<(Vec<Vec<u8>>, std::collections::BTreeMap<usize, Vec<u8>>), Error> {
            let mut enc = enc_new(kind, k, r, b, None)?;
            for o in &originals {
                enc.add(o)?;
            }
            let recovery: Vec<Vec<u8>> = enc.encode()?.recovery_iter().map(<[u8]>::to_vec).collect();
            let mut dec = dec_new(kind, k, r, b, None)?;
            for (is_rec, i) in &all {
                if *is_rec {
                    dec.add_recovery(*i, &recovery[*i])?;
                } else {
                    dec.add_original(*i, &originals[*i])?;
                }
            }
            let restored = dec.decode()?.restored_original_iter().map(|(i, s)| (i, s.to_vec())).collect();
            Ok((recovery, restored))
        });
        let trace: Trace = verif::take_trace();
        ctx.cpu_mask = mask;
        ctx.count("cpu.masked_rounds");
        ctx.hash.feed_u64(u64::from(mask_bits));
        let (recovery, restored) = match out {
            Ok(Ok(v)) => v,
            Ok(Err(e)) => {
                ctx.viol(&["C14", "C06"], "verdict", format!("verdict/cpu/{}", err_name(&e)), format!("{}({k},{r},{b}) under CPU mask avx2={} ssse3={}: valid round returned Err({e:?})", kind.name(), mask_bits & 1, mask_bits >> 1 & 1), true);
                return;
            }
            Err(msg) => {
                ctx.viol(&["C14", "C06"], "no-panic", format!("panic/cpu/{}", panic_sig(&msg)), format!("{}({k},{r},{b}) under CPU mask avx2={} ssse3={} panicked: {msg}", kind.name(), mask_bits & 1, mask_bits >> 1 & 1), true);
                return;
            }
        };
        ev!(ctx, "  mask avx2={} ssse3={}: calls {:?} hits avx2 {:?} ssse3 {:?}", mask_bits & 1, mask_bits >> 1 & 1, trace.calls, trace.hits[ISA_AVX2], trace.hits[ISA_SSSE3]);
        // executed ISAs are a subset of the reported ones and equal the best reported one, per primitive
        for prim in 0..4 {
            ctx.distinct(&[0xD1, u64::from(mask_bits), layer as u64, prim as u64, u64::from(high), u64::from(trace.calls[prim] > 0)]);
            for isa in [ISA_AVX2, ISA_SSSE3, ISA_NEON] {
                let hits = trace.hits[isa][prim];
                let expect = if Some(isa) == best { trace.calls[prim] } else { 0 };
                if hits != expect {
                    let what = if hits > expect {
                        if Some(isa) == best { "more entries than calls" } else if best.is_none() || isa_rank(isa) > best.map_or(0, isa_rank) { "executed code for a feature the CPU did not report" } else { "did not use the most capable reported feature" }
                    } else {
                        "did not use the most capable reported feature"
                    };
                    ctx.viol(
                        &["C14"],
                        "isa-trace",
                        format!("isa/{}/{}/mask{}", PRIMS[prim], isa_name(isa), mask_bits),
                        format!(
                            "{}({k},{r},{b}) with reported features avx2={} ssse3={}: primitive {} was called {} times through DefaultEngine, entered {} code {} times (expected {}): {what}",
                            kind.name(), mask_bits & 1, mask_bits >> 1 & 1, PRIMS[prim], trace.calls[prim], isa_name(isa), hits, expect
                        ),
                        false,
                    );
                    return;
                }
            }
        }
        if trace.calls[3] == 0 {
            ctx.viol(&["C14"], "isa-trace", "isa/no-eval-poly".into(), "decode with a missing original did not evaluate the erasure locator through DefaultEngine".into(), false);
            return;
        }
        // the public Engine API of DefaultEngine used directly (a foreign codec built on it), with arguments the
        // contract permits but the crate's codecs never pass: results must not depend on the reported features either
        let prim = ctx.guarded(false, || direct_primitives(prim_seed));
        ctx.cpu_mask = u32::MAX;
        match prim {
            Ok(d) => {
                ctx.count("cpu.direct_primitive_batches");
                match prim_reference {
                    None => prim_reference = Some(d),
                    Some(d0) if d0 != d => {
                        ctx.viol(&["C14", "C03"], "cross-engine", format!("cross/cpu-mask-primitives/{mask_bits}"), format!("direct fft/ifft/mul/eval_poly calls on DefaultEngine (seed {prim_seed}) give other bytes under reported features avx2={} ssse3={} than under the first mask", mask_bits & 1, mask_bits >> 1 & 1), false);
                        return;
                    }
                    _ => {}
                }
            }
            Err(msg) => {
                ctx.viol(&["C14", "C06"], "no-panic", format!("panic/cpu-primitives/{}", panic_sig(&msg)), format!("direct primitive call on DefaultEngine under mask {mask_bits} panicked: {msg}"), false);
                return;
            }
        }
        // results identical under every subset, and right
        match &reference {
            None => {
                let (mism, compared) = check_r1(high, k, r, &originals, &recovery, data_seed);
                ctx.count_n("r1.symbols_compared", compared as u64);
                if let Some(why) = mism {
                    if ctx.viol(&["C14", "C02"], "r1-code", "r1/cpu".into(), format!("{}({k},{r},{b}) mask {mask_bits}: {why}", kind.name()), false) {
                        return;
                    }
                }
                for (i, s) in &restored {
                    if s != &originals[*i] {
                        if ctx.viol(&["C14", "C01"], "restores-original-bytes", "restore/cpu".into(), format!("{}({k},{r},{b}) mask {mask_bits}: restored original {i} differs", kind.name()), false) {
                            return;
                        }
                        break;
                    }
                }
                reference = Some((recovery, restored));
            }
            Some((rec0, res0)) => {
                if &recovery != rec0 || &restored != res0 {
                    ctx.viol(&["C14", "C03"], "cross-engine", format!("cross/cpu-mask/{mask_bits}"), format!("{}({k},{r},{b}): results under reported features avx2={} ssse3={} differ from those under the first mask", kind.name(), mask_bits & 1, mask_bits >> 1 & 1), false);
                    return;
                }
            }
        }
    }
    if ctx.stats.samples.len() < 2 {
        ctx.stats.samples.push(format!("{}({k},{r},{b}) {} rate, {} of {} shards delivered, all 4 subsets of {{avx2, ssse3}} traced", kind.name(), if high { "high" } else { "low" }, all.len(), k + r));
    }
    let _ = Family::Default;
}

fn isa_rank(isa: usize) -> u32 {
    match isa {
        ISA_AVX2 => 2,
        ISA_SSSE3 => 1,
        _ => 0,
    }
}


/// Seeded direct calls of the four primitives on a freshly constructed `DefaultEngine`; returns a digest of
/// everything the contract defines (first truncated_size outputs of fft, all outputs of ifft with a zero tail,
/// mul, eval_poly) plus the shards outside the transformed range.
fn direct_primitives(seed: u64) -> u64 {
    use reed_solomon_simd::engine::{DefaultEngine, Engine, ShardsRefMut, GF_ORDER};
    let mut p = Prng::new(seed);
    let mut h = simcore::prng::LogHash::default();
    let engine = DefaultEngine::new();
    for round in 0..6 {
        let count = 1usize << (2 + p.below(4)); // 4..32 shards
        let len64 = 1 + p.below(3) as usize;
        let mut data = vec![[0u8; 64]; count * len64];
        let lanes = p.below(3) == 0;
        for c in &mut data {
            if lanes { crate::common::fill_lanes(&mut p, c) } else { p.fill(c) }
        }
        let size = 1usize << (1 + p.below(u64::from(count.trailing_zeros())));
        let pos = p.below((count - size) as u64 + 1) as usize;
        let trunc = 1 + p.below(size as u64) as usize;
        let max_skew = 65536 - size;
        let skew = match p.below(5) {
            0 => 0,
            1 => pos + size,
            2 => 1 + p.below(7) as usize,
            3 => max_skew - p.below(3) as usize,
            _ => p.below(max_skew as u64 + 1) as usize,
        };
        let is_fft = round % 2 == 0;
        if !is_fft {
            for c in &mut data[(pos + trunc) * len64..(pos + size) * len64] {
                *c = [0; 64];
            }
        }
        // every other batch hands the blocks over at an odd address ([[u8; 64]] has alignment 1)
        let misalign = round % 3 != 0;
        if misalign {
            let mut m = crate::lockstep::Misaligned::new(&data, p.below(15) as usize);
            {
                let mut view = ShardsRefMut::new(count, len64, m.blocks_mut());
                if is_fft {
                    engine.fft(&mut view, pos, size, trunc, skew);
                } else {
                    engine.ifft(&mut view, pos, size, trunc, skew);
                }
            }
            data.copy_from_slice(m.blocks());
        } else {
            let mut view = ShardsRefMut::new(count, len64, &mut data);
            if is_fft {
                engine.fft(&mut view, pos, size, trunc, skew);
            } else {
                engine.ifft(&mut view, pos, size, trunc, skew);
            }
        }
        let defined_end = if is_fft { pos + trunc } else { pos + size };
        for (i, c) in data.iter().enumerate() {
            let shard = i / len64;
            if shard < pos || shard >= pos + size || shard < defined_end {
                h.feed_bytes(c);
            }
        }
        let mut x = vec![[0u8; 64]; len64];
        for c in &mut x {
            if lanes { crate::common::fill_lanes(&mut p, c) } else { p.fill(c) }
        }
        let log_m = [0u16, 65535, 65534, p.below(65536) as u16][p.below(4) as usize];
        if misalign {
            let mut m = crate::lockstep::Misaligned::new(&x, p.below(15) as usize);
            engine.mul(m.blocks_mut(), log_m);
            x.copy_from_slice(m.blocks());
        } else {
            engine.mul(&mut x, log_m);
        }
        for c in &x {
            h.feed_bytes(c);
        }
    }
    // eval_poly on a seeded erasure indicator
    let mut erasures: Box<[u16; GF_ORDER]> = vec![0u16; GF_ORDER].into_boxed_slice().try_into().unwrap();
    let used = 2 + p.below(300) as usize;
    for e in erasures.iter_mut().take(used) {
        *e = u16::from(p.below(3) == 0);
    }
    let trunc = if p.below(2) == 0 { used } else { GF_ORDER };
    DefaultEngine::eval_poly(&mut erasures, trunc);
    for v in erasures.iter() {
        h.feed_u64(u64::from(*v));
    }
    h.0 ^ h.1
}
