//! Ports /repo/src/engine/engine_neon.rs onto the intrinsic emulation in src/neon.rs by textual
//! substitution, so that the *real Neon source* of the working tree is compiled and run on x86-64.

use std::{env, fs, path::PathBuf};

fn main() {
    let src_path = "/repo/src/engine/engine_neon.rs";
    println!("cargo:rerun-if-changed={src_path}");
    println!("cargo:rerun-if-changed=build.rs");
    let src = fs::read_to_string(src_path).expect("read engine_neon.rs");

    let mut out = String::new();
    let mut skip_next = false;
    for line in src.lines() {
        if skip_next {
            skip_next = false;
            continue;
        }
        let t = line.trim();
        if t.starts_with("#[cfg(feature = \"verif-hooks\")]") {
            // hook lines refer to crate-private items; drop the attribute and the line it guards
            skip_next = true;
            continue;
        }
        if t.starts_with("#[target_feature(") {
            continue;
        }
        let mut l = line.replace("std::arch::aarch64::", "crate::neon::emu::");
        l = l.replace("core::arch::aarch64::", "crate::neon::emu::");
        l = l.replace("crate::engine::", "reed_solomon_simd::engine::");
        // `vshrq_n_u8(x, N)` uses rustc_legacy_const_generics; the emulation takes N as a const generic
        while let Some(p) = l.find("vshrq_n_u8(") {
            let rest = &l[p + "vshrq_n_u8(".len()..];
            let close = rest.find(')').expect("vshrq_n_u8 call");
            let args = &rest[..close];
            let (a, n) = args.rsplit_once(',').expect("vshrq_n_u8 args");
            let new = format!("vshrq_n_u8::<{}>\u{1}{})", n.trim(), a.trim());
            l = format!("{}{}{}", &l[..p], new, &rest[close + 1..]);
        }
        l = l.replace('\u{1}', "(");
        out.push_str(&l);
        out.push('\n');
    }
    assert!(out.contains("pub struct Neon"), "engine_neon.rs no longer defines Neon");
    let dest = PathBuf::from(env::var("OUT_DIR").unwrap()).join("neon_ported.rs");
    fs::write(dest, out).unwrap();
}
