//! msim - Sim C, second layer: the same kind of scenario as tsim reduced to the Naive engine and 2-byte
//! shards, with real std threads and the real std::sync::LazyLock, no hooks. Run natively it prints the
//! sequential results (`expect`); run under Miri (seeded, preemptive scheduler, data-race detector) it
//! races cold tables and compares every thread's result with those sequential results.
//!
//!   msim expect <mode> <seed>            -> hex of the sequential results
//!   msim race <mode> <seed> <expected>   -> exit 0 if every thread reproduced them, panics otherwise
//! mode: encode | decode

use std::sync::mpsc;

use reed_solomon_simd::engine::{Engine, GfElement, Naive, GF_ORDER};
use reed_solomon_simd::rate::{HighRateDecoder, HighRateEncoder, LowRateDecoder, LowRateEncoder, RateDecoder, RateEncoder};

thread_local! {
    /// Where a thread keeps its last codec "for next time", as pool workers do; first touched when the thread starts,
    /// i.e. before any thread-local the crate itself may create, so that (on this platform) it is destroyed after them.
    static PARKED: std::cell::RefCell<Vec<Box<dyn std::any::Any>>> = const { std::cell::RefCell::new(Vec::new()) };
}

fn park(codec: Box<dyn std::any::Any>) {
    PARKED.with(|p| p.borrow_mut().push(codec));
}

fn splitmix(s: &mut u64) -> u64 {
    *s = s.wrapping_add(0x9E37_79B9_7F4A_7C15);
    let mut z = *s;
    z = (z ^ (z >> 30)).wrapping_mul(0xBF58_476D_1CE4_E5B9);
    z = (z ^ (z >> 27)).wrapping_mul(0x94D0_49BB_1331_11EB);
    z ^ (z >> 31)
}

#[derive(Clone, Copy)]
struct Job {
    high: bool,
    k: usize,
    r: usize,
    data: u64,
}

fn jobs(seed: u64) -> Vec<Job> {
    // four threads: two high-rate and two low-rate jobs, so that both decoders (and both encoders) always run
    // on two threads at once; every thread finishes the decode round its neighbour started
    let mut s = seed ^ 0xA5A5_5A5A;
    (0..4)
        .map(|t| {
            let v = splitmix(&mut s);
            Job { high: t % 2 == 0, k: 1 + (v >> 1) as usize % 3, r: 1 + (v >> 8) as usize % 3, data: splitmix(&mut s) }
        })
        .collect()
}

fn originals(job: &Job) -> Vec<[u8; 2]> {
    let mut s = job.data;
    (0..job.k).map(|_| (splitmix(&mut s) as u16).to_le_bytes()).collect()
}

fn encode(job: &Job) -> Vec<Vec<u8>> {
    let orig = originals(job);
    fn go<T: RateEncoder<Naive> + 'static>(job: &Job, orig: &[[u8; 2]]) -> Vec<Vec<u8>> {
        let mut enc = T::new(job.k, job.r, 2, Naive::new(), None).unwrap();
        for o in orig {
            enc.add_original_shard(o).unwrap();
        }
        let res = enc.encode().unwrap();
        let out = res.recovery_iter().map(<[u8]>::to_vec).collect();
        drop(res);
        park(Box::new(enc));
        out
    }
    if job.high { go::<HighRateEncoder<Naive>>(job, &orig) } else { go::<LowRateEncoder<Naive>>(job, &orig) }
}

/// First half of a decode round: a decoder with the recovery shards added (original 0 is lost).
enum Half {
    High(HighRateDecoder<Naive>),
    Low(LowRateDecoder<Naive>),
}

fn decode_first_half(job: &Job, recovery: &[Vec<u8>]) -> Half {
    fn go<T: RateDecoder<Naive>>(job: &Job, recovery: &[Vec<u8>]) -> T {
        let mut dec = T::new(job.k, job.r, 2, Naive::new(), None).unwrap();
        dec.add_recovery_shard(0, &recovery[0]).unwrap();
        dec
    }
    if job.high { Half::High(go(job, recovery)) } else { Half::Low(go(job, recovery)) }
}

fn decode_second_half(job: &Job, half: Half) -> Vec<u8> {
    let orig = originals(job);
    fn go<T: RateDecoder<Naive> + 'static>(mut dec: T, orig: &[[u8; 2]]) -> Vec<u8> {
        for (i, o) in orig.iter().enumerate().skip(1) {
            dec.add_original_shard(i, o).unwrap();
        }
        let res = dec.decode().unwrap();
        let restored: Vec<(usize, Vec<u8>)> = res.restored_original_iter().map(|(i, s)| (i, s.to_vec())).collect();
        assert_eq!(restored.len(), 1);
        assert_eq!(restored[0].0, 0);
        drop(res);
        park(Box::new(dec));
        restored[0].1.clone()
    }
    match half {
        Half::High(d) => go(d, &orig),
        Half::Low(d) => go(d, &orig),
    }
}

/// A direct call of the erasure-locator evaluation on a thread that has not built any engine: the first
/// thing it touches is LOG_WALSH (and through it EXP_LOG), never SKEW - the other order of first use than
/// every thread that starts by constructing an engine.
fn bare_eval_poly(seed: u64) -> String {
    let mut s = seed ^ 0x0E7A_1;
    let mut erasures: Box<[GfElement; GF_ORDER]> = vec![0; GF_ORDER].into_boxed_slice().try_into().unwrap();
    for _ in 0..5 {
        erasures[splitmix(&mut s) as usize % 16] = 1;
    }
    <Naive as Engine>::eval_poly(&mut erasures, 16);
    let mut h = 0xcbf2_9ce4_8422_2325u64;
    for v in erasures.iter() {
        h = (h ^ u64::from(*v)).wrapping_mul(0x0000_0100_0000_01B3);
    }
    format!("{h:016x}")
}

fn hex(v: &[u8]) -> String {
    v.iter().map(|b| format!("{b:02x}")).collect()
}

fn result_of(job: &Job, decode: bool) -> String {
    let rec = encode(job);
    let mut out: String = rec.iter().map(|s| hex(s)).collect::<Vec<_>>().join(".");
    if decode {
        let restored = decode_second_half(job, decode_first_half(job, &rec));
        assert_eq!(restored, originals(job)[0].to_vec(), "sequential decode does not restore the original");
        out.push(':');
        out.push_str(&hex(&restored));
    }
    out
}

fn main() {
    let a: Vec<String> = std::env::args().collect();
    let cmd = a.get(1).map(String::as_str).unwrap_or("");
    let decode = a.get(2).map(String::as_str) == Some("decode");
    let seed: u64 = a.get(3).and_then(|s| s.parse().ok()).unwrap_or(1);
    let jobs = jobs(seed);
    match cmd {
        "expect" => {
            let mut all: Vec<String> = jobs.iter().map(|j| result_of(j, decode)).collect();
            if decode {
                all.push(bare_eval_poly(seed));
            }
            println!("{}", all.join("/"));
        }
        "race" => {
            let expected: Vec<String> = a.get(4).expect("expected results").split('/').map(str::to_string).collect();
            // objects are handed to the next thread in the middle of a decode round
            let (txs, rxs): (Vec<_>, Vec<_>) = (0..jobs.len()).map(|_| mpsc::channel::<(usize, Half)>()).unzip();
            let mut rxs: Vec<Option<mpsc::Receiver<(usize, Half)>>> = rxs.into_iter().map(Some).collect();
            let mut handles = Vec::new();
            if decode {
                // a fifth thread whose first use of the crate is a bare eval_poly (LOG_WALSH before any SKEW)
                let want = expected[jobs.len()].clone();
                handles.push(std::thread::spawn(move || {
                    assert_eq!(bare_eval_poly(seed), want, "C16-VIOLATION: a bare eval_poly racing the first engine constructions gave other values than sequential use");
                }));
            }
            for (t, job) in jobs.iter().copied().enumerate() {
                let next = txs[(t + 1) % jobs.len()].clone();
                let rx = rxs[t].take().unwrap();
                let jobs = jobs.clone();
                let expected = expected.clone();
                handles.push(std::thread::spawn(move || {
                    PARKED.with(|p| p.borrow_mut().clear());
                    // first use of the tables races with the other threads (cold start)
                    let rec = encode(&job);
                    let mut mine: String = rec.iter().map(|s| hex(s)).collect::<Vec<_>>().join(".");
                    if decode {
                        next.send((t, decode_first_half(&job, &rec))).unwrap();
                        drop(next);
                        let (from, half) = rx.recv().unwrap();
                        let restored = decode_second_half(&jobs[from], half);
                        let want = expected[from].split(':').nth(1).unwrap().to_string();
                        assert_eq!(hex(&restored), want, "C16-VIOLATION: thread {t} finishing the round of thread {from} restored other bytes than sequential use");
                        mine.push(':');
                        mine.push_str(expected[t].split(':').nth(1).unwrap());
                    }
                    assert_eq!(mine, expected[t], "C16-VIOLATION: thread {t} produced other bytes than sequential use");
                }));
            }
            drop(txs);
            for h in handles {
                h.join().expect("C16-VIOLATION: a thread panicked");
            }
            println!("race ok");
        }
        _ => {
            eprintln!("usage: msim expect|race encode|decode <seed> [<expected>]");
            std::process::exit(2);
        }
    }
}
